//! Replays a verifier witness against the real crate (public API only) and prints a JSON record.
//! Never decides anything: it attaches a concrete failing input to an obligation that already failed.
use jmespath::ast::Comparator;
use jmespath::{compile, JmespathError, Variable};
use serde_json::Number;
use std::panic;

fn num(x: f64) -> Variable {
    Variable::Number(Number::from_f64(x).unwrap())
}

fn main() {
    let a: Vec<String> = std::env::args().collect();
    match a[1].as_str() {
        "float" => {
            let x = f64::from_bits(u64::from_str_radix(a[2].trim_start_matches("0x"), 16).unwrap());
            let y = f64::from_bits(u64::from_str_radix(a[3].trim_start_matches("0x"), 16).unwrap());
            let (vx, vy) = (num(x), num(y));
            let c = |k: Comparator| vx.compare(&k, &vy);
            println!(
                "{{\"a\":\"{:e}\",\"b\":\"{:e}\",\"eq\":{:?},\"ne\":{:?},\"lt\":{:?},\"le\":{:?},\"gt\":{:?},\"ge\":{:?},\"eq_rev\":{:?},\"num_lt\":{},\"num_gt\":{},\"num_eq\":{}}}",
                x, y,
                c(Comparator::Equal).unwrap(), c(Comparator::NotEqual).unwrap(), c(Comparator::LessThan).unwrap(),
                c(Comparator::LessThanEqual).unwrap(), c(Comparator::GreaterThan).unwrap(), c(Comparator::GreaterThanEqual).unwrap(),
                vy.compare(&Comparator::Equal, &vx).unwrap(), x < y, x > y, x == y
            );
        }
        "errnew" => {
            // errnew <cp1> <cp2> <offset>
            let c1 = std::char::from_u32(u32::from_str_radix(&a[2], 16).unwrap()).unwrap();
            let c2 = std::char::from_u32(u32::from_str_radix(&a[3], 16).unwrap()).unwrap();
            let off: usize = a[4].parse().unwrap();
            let mut s = String::new();
            s.push(c1);
            s.push(c2);
            let r = panic::catch_unwind(|| JmespathError::new(&s, off, jmespath::ErrorReason::Parse("x".to_owned())));
            match r {
                Ok(e) => println!("{{\"panicked\":false,\"line\":{},\"column\":{},\"offset\":{}}}", e.line, e.column, e.offset),
                Err(_) => println!("{{\"panicked\":true}}"),
            }
        }
        "search" => {
            // search <expr> <json>
            let r = panic::catch_unwind(|| match compile(&a[2]) {
                Err(e) => format!("{{\"compile_err\":{{\"offset\":{},\"line\":{},\"column\":{},\"reason\":{:?}}}}}", e.offset, e.line, e.column, format!("{:?}", e.reason)),
                Ok(x) => match x.search(Variable::from_json(&a[3]).unwrap()) {
                    Ok(v) => format!("{{\"ok\":{}}}", v),
                    Err(e) => format!("{{\"search_err\":{{\"offset\":{},\"line\":{},\"column\":{},\"expression\":{:?},\"reason\":{:?}}}}}", e.offset, e.line, e.column, e.expression, format!("{:?}", e.reason)),
                },
            });
            match r {
                Ok(s) => println!("{}", s),
                Err(_) => println!("{{\"panicked\":true}}"),
            }
        }
        "slices" => {
            // slices: reads lines `len start stop step` (start/stop may be `-` for omitted) from stdin, evaluates the slice
            // expression on [0, 1, .., len-1] through compile+search, prints one JSON line per probe
            use std::io::BufRead;
            let stdin = std::io::stdin();
            for line in stdin.lock().lines() {
                let line = line.unwrap();
                let f: Vec<&str> = line.split_whitespace().collect();
                if f.len() != 4 { continue; }
                let n: usize = f[0].parse().unwrap();
                let part = |x: &str| if x == "-" { String::new() } else { x.to_string() };
                let expr = format!("@[{}:{}:{}]", part(f[1]), part(f[2]), part(f[3]));
                let doc = format!("[{}]", (0..n).map(|i| i.to_string()).collect::<Vec<_>>().join(","));
                let r = panic::catch_unwind(|| match compile(&expr) {
                    Err(e) => format!("\"compile_err\":{:?}", format!("{:?}", e.reason)),
                    Ok(x) => match x.search(Variable::from_json(&doc).unwrap()) {
                        Ok(v) => format!("\"ok\":{}", v),
                        Err(e) => format!("\"search_err\":{:?}", format!("{:?}", e.reason)),
                    },
                });
                match r {
                    Ok(s) => println!("{{\"probe\":{:?},\"expr\":{:?},{}}}", line, expr, s),
                    Err(_) => println!("{{\"probe\":{:?},\"expr\":{:?},\"panicked\":true}}", line, expr),
                }
            }
        }
        "searchfile" => {
            // searchfile <file with expression> <json>   (no catch_unwind: a stack overflow aborts the process)
            let e = std::fs::read_to_string(&a[2]).unwrap();
            match compile(&e) {
                Err(err) => println!("{{\"compile_err_offset\":{}}}", err.offset),
                Ok(x) => match x.search(Variable::from_json(&a[3]).unwrap()) {
                    Ok(_) => println!("{{\"ok\":true}}"),
                    Err(err) => println!("{{\"search_err_offset\":{}}}", err.offset),
                },
            }
        }
        _ => {}
    }
}
