// Injected as a child module of `errors` on a scratch copy of the crate.
// BOUNDED: expressions of exactly two characters (each fully symbolic over all of Unicode), every offset
// 0..=len+1.  Reported as bounded(2 chars), never counted as proved.
use super::*;

fn any_char() -> char {
    let c: char = kani::any();
    c
}

/// C12: line = number of '\n' among the characters that start before the byte offset; column = number of
/// characters since the last such '\n'; offset/expression/reason are copied.  C05: never panics, for any
/// offset including offsets inside a character or past the end.
#[kani::proof]
#[kani::unwind(4)]
fn err_new_coords() {
    let c1 = any_char();
    let c2 = any_char();
    let mut s = String::new();
    s.push(c1);
    s.push(c2);
    let offset: usize = kani::any();
    kani::assume(offset <= s.len() + 1);
    let e = JmespathError::new(&s, offset, ErrorReason::Runtime(RuntimeError::InvalidSlice));
    let b1 = 0 < offset;                 // c1 starts at byte 0
    let b2 = c1.len_utf8() < offset;     // c2 starts right after c1
    let nl1 = b1 && c1 == '\n';
    let nl2 = b2 && c2 == '\n';
    let exp_line = (nl1 as usize) + (nl2 as usize);
    let exp_col = if b2 {
        if c2 == '\n' { 0 } else if c1 == '\n' { 1 } else { 2 }
    } else if b1 {
        if c1 == '\n' { 0 } else { 1 }
    } else {
        0
    };
    assert!(e.line == exp_line, "line");
    assert!(e.column == exp_col, "column");
    assert!(e.offset == offset, "offset-copied");
}

/// Same clauses for three fully symbolic characters (thorough tier; still BOUNDED).
#[kani::proof]
#[kani::unwind(5)]
fn err_new_coords3() {
    let c1 = any_char();
    let c2 = any_char();
    let c3 = any_char();
    let mut s = String::new();
    s.push(c1);
    s.push(c2);
    s.push(c3);
    let offset: usize = kani::any();
    kani::assume(offset <= s.len() + 1);
    let e = JmespathError::new(&s, offset, ErrorReason::Runtime(RuntimeError::InvalidSlice));
    let b1 = 0 < offset;
    let b2 = c1.len_utf8() < offset;
    let b3 = c1.len_utf8() + c2.len_utf8() < offset;
    let exp_line = ((b1 && c1 == '\n') as usize) + ((b2 && c2 == '\n') as usize) + ((b3 && c3 == '\n') as usize);
    // characters since the last newline among those that start before the offset
    let mut col = 0usize;
    if b1 { col = if c1 == '\n' { 0 } else { col + 1 }; }
    if b2 { col = if c2 == '\n' { 0 } else { col + 1 }; }
    if b3 { col = if c3 == '\n' { 0 } else { col + 1 }; }
    assert!(e.line == exp_line, "line");
    assert!(e.column == col, "column");
    assert!(e.offset == offset, "offset-copied");
}
