// Injected as a child module of `variable` (so that the private `float_eq` is reachable) on a scratch
// copy of the crate; never part of /repo.  All harnesses are loop-free over the full domain of finite
// doubles, so a successful run is a complete proof of the stated clause (not a bounded check).
use super::*;

fn any_finite() -> f64 {
    let x: f64 = kani::any();
    kani::assume(x.is_finite());
    x
}

/// C10: '==' on numbers is reflexive and symmetric; numerically equal doubles are equal.
#[kani::proof]
fn float_eq_refl_sym() {
    let a = any_finite();
    let b = any_finite();
    assert!(float_eq(a, a), "reflexive");
    assert!(float_eq(a, b) == float_eq(b, a), "symmetric");
    if a == b {
        assert!(float_eq(a, b), "numerically-equal-implies-eq");
    }
}

/// C10: well-separated numbers (relative gap >= 2^-40, both normal) are never equal, and exactly one of
/// a<b, a==b, a>b holds for them.  Tolerant equality below that gap is the documented mechanism.
#[kani::proof]
fn float_eq_separated() {
    let a = any_finite();
    let b = any_finite();
    kani::assume(a.is_normal() && b.is_normal());
    // |a-b| >= 2^-40 * max(|a|,|b|), stated without overflow: compare halves
    let gap = (a * 0.5 - b * 0.5).abs();
    let big = if a.abs() > b.abs() { a.abs() } else { b.abs() };
    kani::assume(gap >= big * 0.5 * 9.094947017729282e-13);
    assert!(!float_eq(a, b), "separated-not-equal");
    let lt = a < b;
    let gt = a > b;
    assert!((lt as u8) + (gt as u8) + (float_eq(a, b) as u8) == 1, "trichotomy");
}


/// C10: the same for operands at or near zero (zero or subnormal, where the relative test does not apply):
/// numbers that differ by a factor of two or more - in particular zero against any non-zero number - are
/// never equal, and exactly one of a<b, a==b, a>b holds for them.
#[kani::proof]
fn float_eq_near_zero() {
    let a = any_finite();
    let b = any_finite();
    kani::assume(!a.is_normal() || !b.is_normal());
    kani::assume(a != b);
    kani::assume(a.abs() >= 2.0 * b.abs() || b.abs() >= 2.0 * a.abs());
    assert!(!float_eq(a, b), "near-zero-separated-not-equal");
    let lt = a < b;
    let gt = a > b;
    assert!((lt as u8) + (gt as u8) + (float_eq(a, b) as u8) == 1, "near-zero-trichotomy");
}
