#!/usr/bin/env python3
"""Import a delivered seeded change after confirming it.

usage: tools/harvest_seeded.py <delivery dir with patch.diff demo.rs notes.md> <new id, e.g. C02-c> <property> [cargo args]

Runs tools/confirm_seeded.sh (scratch worktree: patch applies, full suite passes with it, demo fails with it and
passes without it).  Only a fully confirmed change is copied to seeded/<id>/ with a meta.json; anything else is
reported and left alone.
"""
import json, os, shutil, subprocess, sys
VERIF = os.path.dirname(os.path.dirname(os.path.abspath(__file__)))
src, new_id, prop = sys.argv[1], sys.argv[2], sys.argv[3]
extra = ' '.join(sys.argv[4:])
for f in ('patch.diff', 'demo.rs'):
    if not os.path.exists(os.path.join(src, f)):
        print(new_id, 'NOT DELIVERED: missing', f); sys.exit(1)
out = subprocess.run([os.path.join(VERIF, 'tools/confirm_seeded.sh'), src] + sys.argv[4:], capture_output=True, text=True).stdout
line = [l for l in out.splitlines() if l.startswith('{')][-1]
c = json.loads(line)
ok = c['applies'] and c['suite_passes_with_patch'] and c['demo_fails_with_patch'] and c['demo_passes_without_patch']
if not ok:
    print(new_id, 'REJECTED', line); sys.exit(1)
dst = os.path.join(VERIF, 'seeded', new_id)
os.makedirs(dst, exist_ok=True)
for f in ('patch.diff', 'demo.rs', 'notes.md'):
    if os.path.exists(os.path.join(src, f)):
        shutil.copy(os.path.join(src, f), os.path.join(dst, f))
notes = open(os.path.join(src, 'notes.md')).read().splitlines() if os.path.exists(os.path.join(src, 'notes.md')) else []
head = subprocess.run(['git', '-C', '/repo', 'rev-parse', '--short', 'HEAD'], capture_output=True, text=True).stdout.strip()
meta = {
    'id': new_id, 'breaks_property': prop,
    'origin': 'independent sub-agent (round ' + os.environ.get('SEED_ROUND', '2') + ') given only the property text and a scratch worktree',
    'needs_to_manifest': notes,
    'confirmed_by_me': {
        'patch_applies': True, 'existing_suite_passes_with_patch': True,
        'demo_fails_with_patch': True, 'demo_passes_without_patch': True,
        'how': 'tools/confirm_seeded.sh in a scratch worktree of /repo at %s: git apply; cargo test --workspace --no-fail-fast --offline; cargo test --offline %s --test seeded_demo with and without the patch' % (head, extra),
    },
    'demo_cargo_args': extra,
}
json.dump(meta, open(os.path.join(dst, 'meta.json'), 'w'), indent=1)
print(new_id, 'CONFIRMED ->', dst)
