"""Non-verifier side checks attached to a property (mechanical scans, rustc trait
obligations, re-demonstration of known findings).  Each returns a dict:
{name, status: ok|fail|undecided, reason, failures:[...], obligations, discharged, trusted:[...]}"""
import json
import os
import re
import subprocess
import sys
import tempfile
import shutil
import time

VERIF = os.path.dirname(os.path.dirname(os.path.abspath(__file__)))
REPO = os.environ.get('VERIF_REPO', '/repo')

REGISTRY = {}


def extra(fn):
    REGISTRY[fn.__name__] = fn
    return fn


def run_extra(name, tier):
    fn = REGISTRY.get(name)
    if not fn:
        return {'name': name, 'status': 'undecided', 'reason': 'unknown extra', 'failures': []}
    t0 = time.time()
    try:
        r = fn(tier)
    except Exception as e:  # never an alarm
        r = {'status': 'undecided', 'reason': 'crashed: %r' % e, 'failures': []}
    r['name'] = name
    r.setdefault('failures', [])
    r.setdefault('reason', '')
    r['wall_s'] = round(time.time() - t0, 2)
    return r


def _src(rel=''):
    base = os.environ.get('VERIF_REPO_SRC') or os.path.join(REPO, 'jmespath', 'src')
    return os.path.join(base, rel)


def _crate():
    if os.environ.get('VERIF_REPO_SRC'):
        return os.path.dirname(os.environ['VERIF_REPO_SRC'].rstrip('/'))
    return os.path.join(REPO, 'jmespath')


sys.path.insert(0, os.path.dirname(__file__))
import rustscan as R  # noqa: E402

FORBIDDEN = [r'\bCell\s*<', r'\bRefCell\b', r'\bMutex\b', r'\bRwLock\b', r'\bAtomic[A-Z]\w*', r'\bUnsafeCell\b',
             r'\bstatic\s+mut\b', r'\bunsafe\b', r'\bthread_local!', r'\bOnceCell\b', r'\bOnceLock\b', r'\bLazyCell\b']


@extra
def frame_scan(tier):
    """C13/C16: the frame obligation.  Every per-call contract in the units says "the result is related to the
    arguments"; that is a statement about the function only if the compile/search path holds no shared mutable
    state (inputs and compiled expressions are then reached only through `&`, T3).  The obligation is syntactic: no
    interior mutability, no mutable or interior-mutable statics, no thread-locals in jmespath/src.  It is discharged
    on the pinned tree; a hit is a FAILED obligation and is reported as a violation without a failing input (the
    scan cannot construct one, and cannot tell a result-neutral use, e.g. a statistics counter, from a harmful one:
    stated limit).  `unsafe` alone is UNDECIDED (exit 2): it says nothing about state."""
    hits = []
    unsafe_hits = []
    files = sorted(f for f in os.listdir(_src()) if f.endswith('.rs'))
    for f in files:
        src = open(_src(f)).read()
        mask = R.mask_source(src)
        for pat in FORBIDDEN:
            for m in re.finditer(pat, mask):
                line = src.count('\n', 0, m.start()) + 1
                (unsafe_hits if 'unsafe' in pat else hits).append((f, line, m.group(0).strip()))
    if hits:
        fails = []
        seen = set()
        for f, line, tok in hits:
            key = (f, re.sub(r'\W+', '', tok))
            if key in seen:
                continue
            seen.add(key)
            text = open(_src(f)).read().split('\n')[line - 1].strip()
            fails.append({'obligation': 'extra/frame_scan#no-shared-mutable-state:%s:%s' % (f, key[1]), 'kind': 'frame',
                          'label': 'no-shared-mutable-state', 'properties': ['C13', 'C16'],
                          'function': 'jmespath/src/%s' % f,
                          'message': 'shared mutable state on the compile/search path: `%s` at %s:%d' % (tok, f, line),
                          'clause': 'frame: jmespath/src holds no interior mutability, mutable static or thread-local',
                          'site': {'repo': 'jmespath/src/%s:%d' % (f, line), 'text': text[:200]},
                          'rendered': 'frame_scan: %s:%d: %s' % (f, line, text[:300]),
                          'backend': 'extra', 'witness': None, 'witness_replayed': False})
        return {'status': 'fail', 'failures': fails, 'obligations': len(files), 'discharged': max(0, len(files) - len({h[0] for h in hits})),
                'cmd': 'tools/extras.py frame_scan (regex scan of jmespath/src/*.rs with comments/strings blanked)'}
    if unsafe_hits:
        return {'status': 'undecided', 'reason': '`unsafe` found, the frame argument (T3) no longer applies as stated: ' + '; '.join('%s:%d' % h[:2] for h in unsafe_hits[:5]),
                'failures': [], 'obligations': 0, 'discharged': 0}
    return {'status': 'ok', 'obligations': len(files), 'discharged': len(files), 'scanned': files,
            'cmd': 'tools/extras.py frame_scan (regex scan of jmespath/src/*.rs with comments/strings blanked)',
            'trusted': ['T3: safe Rust without interior mutability cannot mutate through & (borrow checker); lazy_static initialises once'],
            'note': 'patterns: ' + ', '.join(FORBIDDEN)}


SPEC_BUILTINS = ['abs', 'avg', 'ceil', 'contains', 'ends_with', 'floor', 'join', 'keys', 'length', 'map', 'max', 'max_by',
                 'merge', 'min', 'min_by', 'not_null', 'reverse', 'sort', 'sort_by', 'starts_with', 'sum', 'to_array',
                 'to_number', 'to_string', 'type', 'values']


def _camel(n):
    return ''.join(w.capitalize() for w in n.split('_')) + 'Fn'


def _in_string(mask, raw, i):
    """True when position i lies inside a string literal (the mask keeps the quotes and blanks the content)."""
    j = i
    while j >= 0 and mask[j] == ' ' and raw[j] != '"':
        j -= 1
    if j < 0 or raw[j] != '"' or mask[j] != '"':
        return False
    # an opening quote has an even number of quotes before it on the masked text
    return mask[:j].count('"') % 2 == 0


@extra
def builtin_table(tier):
    """C15/C02/C06: runtime.rs::register_builtin_functions binds each of the 26 specified names to the struct of
    the same function.  Exhaustive syntactic check of the (finite) table, read from the source each run; the
    registry semantics of register_function is the Verus obligation `register-binds-exact-name`."""
    src = open(_src('runtime.rs')).read()
    try:
        item, _ = R.locate(src, 'runtime.rs', ['impl Runtime', 'fn register_builtin_functions'])
    except R.LostAnchor as e:
        return {'status': 'undecided', 'reason': str(e)}
    body = R.mask_source(item.body)
    raw = item.body
    # statements with comments removed (the mask blanks comments and string contents; the strings are read back from raw)
    nocomment = ''.join(raw[i] if (body[i] != ' ' or raw[i] in ' \n\t' or _in_string(body, raw, i)) else ' ' for i in range(len(raw)))
    stmts = [s.strip() for s in nocomment.split(';') if s.strip()]
    seen = {}
    fails = []
    for s in stmts:
        m = re.fullmatch(r'self\.register_function\(\s*"(\w+)"\s*,\s*Box::new\(\s*(\w+)::new\(\)\s*\)\s*\)', re.sub(r'\s+', ' ', s).replace('( ', '(').replace(' )', ')'))
        if not m:
            return {'status': 'undecided', 'reason': 'statement not of the form self.register_function("name", Box::new(T::new())): ' + s[:80]}
        seen[m.group(1)] = m.group(2)   # a later statement for the same name wins (registry semantics)
    known_structs = {_camel(n): n for n in SPEC_BUILTINS}
    unknown = []
    for n in SPEC_BUILTINS:
        if n not in seen:
            fails.append(('missing', n, 'builtin `%s` is not registered' % n))
        elif seen[n] != _camel(n):
            if seen[n] in known_structs:       # bound to the struct that implements a different specified function
                fails.append(('wrong-impl', n, 'name `%s` is bound to %s (the implementation of `%s`), expected %s' % (n, seen[n], known_structs[seen[n]], _camel(n))))
            else:                              # a struct this table does not know (renamed?): cannot be decided here
                unknown.append('%s -> %s' % (n, seen[n]))
    if unknown and not fails:
        return {'status': 'undecided', 'reason': 'builtin names bound to structs outside the recorded naming scheme (renamed?): ' + ', '.join(unknown[:5])}
    extra_names = sorted(n for n in seen if n not in SPEC_BUILTINS)     # additional functions are not constrained by the properties
    failures = [{'obligation': 'extra/builtin_table#table:%s-%s' % (k, n), 'kind': 'table', 'label': k, 'properties': ['C15', 'C02', 'C06'],
                 'function': 'runtime.rs::register_builtin_functions', 'message': msg, 'clause': 'name -> implementation table',
                 'site': {'repo': 'jmespath/src/runtime.rs:%d-%d' % (item.first_line, item.last_line)}, 'rendered': msg,
                 'backend': 'extra', 'witness': {'call': '%s(...)' % n}, 'witness_replayed': False} for k, n, msg in fails]
    return {'status': 'fail' if failures else 'ok', 'failures': failures, 'obligations': len(SPEC_BUILTINS), 'discharged': len(SPEC_BUILTINS) - len(set(f[1] for f in fails if f[1] in SPEC_BUILTINS)),
            'cmd': 'tools/extras.py builtin_table (exhaustive over the 26-row table)', 'table': seen, 'additional_names': extra_names}


def _cargo(args, cwd, timeout=900, toolchain=None):
    env = dict(os.environ, CARGO_NET_OFFLINE='true')
    env.pop('RUSTUP_TOOLCHAIN', None)
    cmd = ['cargo'] + ([('+' + toolchain)] if toolchain else []) + args
    p = subprocess.run(cmd, cwd=cwd, env=env, capture_output=True, text=True, timeout=timeout)
    return p


@extra
def sync_bounds(tier):
    """C16: type-level obligations discharged by rustc's trait solver on the real crate built with --features sync:
    the public types are Send + Sync.  A failed bound is a VIOLATION."""
    scratch = tempfile.mkdtemp(prefix='vf_sync_')
    try:
        d = os.path.join(scratch, 'syncob')
        os.makedirs(os.path.join(d, 'src'))
        open(os.path.join(d, 'Cargo.toml'), 'w').write(
            '[package]\nname = "syncob"\nversion = "0.1.0"\nedition = "2018"\n[dependencies]\njmespath = { path = "%s", features = ["sync"] }\n[workspace]\n' % _crate())
        bounds = ['jmespath::Expression<\'static>', 'jmespath::Runtime', 'jmespath::Variable', 'jmespath::Rcvar', 'jmespath::ast::Ast',
                  'jmespath::JmespathError', 'jmespath::Context<\'static>', 'Box<dyn jmespath::functions::Function>',
                  'jmespath::functions::Signature', 'jmespath::functions::CustomFunction']
        body = 'fn need<T: Send + Sync>() {}\n'
        for i, b in enumerate(bounds):
            body += 'pub fn ob_%d() { need::<%s>(); }\n' % (i, b)
        body += 'pub fn ob_default_runtime() { fn s<T: Sync>(_: &T) {} s(&*jmespath::DEFAULT_RUNTIME); }\n'
        open(os.path.join(d, 'src', 'lib.rs'), 'w').write(body)
        env = dict(os.environ, CARGO_NET_OFFLINE='true', CARGO_TARGET_DIR=os.path.join(scratch, 'target'))
        env.pop('RUSTUP_TOOLCHAIN', None)
        lock = os.path.join(_crate(), 'Cargo.lock')
        p = subprocess.run(['cargo', 'check', '--offline', '--message-format', 'short'], cwd=d, env=env, capture_output=True, text=True, timeout=900)
        out = p.stdout + p.stderr
        if p.returncode == 0:
            return {'status': 'ok', 'obligations': len(bounds) + 1, 'discharged': len(bounds) + 1, 'bounds': bounds + ['DEFAULT_RUNTIME: Sync'],
                    'cmd': 'cargo check --offline  (crate stating `T: Send + Sync` for each type against jmespath with features=["sync"])',
                    'trusted': ['rustc trait solver; T3: safe Rust is data-race free']}
        failed = []
        for i, b in enumerate(bounds):
            if re.search(r'src/lib\.rs:%d:' % (i + 2), out):
                failed.append(b)
        if not failed and 'E0277' not in out:
            return {'status': 'undecided', 'reason': 'sync obligations crate did not build: ' + out[-400:]}
        failures = [{'obligation': 'extra/sync_bounds#bound:%s' % re.sub(r'[^A-Za-z0-9]+', '_', b), 'kind': 'bound', 'label': b, 'properties': ['C16'],
                     'function': b, 'message': '%s is not Send + Sync under --features sync' % b, 'clause': 'T: Send + Sync',
                     'site': {'repo': 'jmespath/src'}, 'rendered': out[-1500:], 'backend': 'extra',
                     'witness': {'type': b}, 'witness_replayed': True} for b in (failed or ['(unidentified)'])]
        return {'status': 'fail', 'failures': failures, 'obligations': len(bounds) + 1, 'discharged': len(bounds) + 1 - len(failures)}
    finally:
        shutil.rmtree(scratch, ignore_errors=True)


@extra
def stack_depth(tier):
    """C05: stack depth cannot be stated as a contract (neither verifier has a stack model).  The known finding
    (unbounded recursion in parser / evaluator / derived Drop) is re-demonstrated on the real crate in a subprocess;
    each input is its own obligation, so a different deep input that starts to abort is reported as a violation."""
    import replaydrv
    scratch = tempfile.mkdtemp(prefix='vf_stack_')
    try:
        try:
            exe = replaydrv.build(scratch)
        except Exception as e:
            return {'status': 'undecided', 'reason': 'replay driver build failed: %r' % e}
        n = 200000
        inputs = {
            'nested-parens': ('(' * n + 'a' + ')' * n, '{}'),
            'nested-not': ('!' * n + 'a', '{}'),
            'nested-multiselect': ('[' * n + 'a' + ']' * n, '{}'),
            'long-subexpression-chain': ('a' + '.a' * n, '{}'),
        }
        fails = []
        ok = 0
        for name, (e, d) in inputs.items():
            ef = os.path.join(scratch, name + '.expr')
            open(ef, 'w').write(e)
            p = subprocess.run([exe, 'searchfile', ef, d], capture_output=True, text=True, timeout=300)
            if p.returncode < 0 or p.returncode >= 128 or 'overflow' in p.stderr:
                fails.append({'obligation': 'extra/stack_depth#abort:%s' % name, 'kind': 'abort', 'label': name, 'properties': ['C05'],
                              'function': 'parser.rs::Parser::expr / interpreter.rs::interpret (unbounded recursion)',
                              'message': 'process aborted (return code %d): %s' % (p.returncode, p.stderr.strip()[-200:]),
                              'clause': 'compile/search return Ok or Err on every input', 'site': {'repo': 'jmespath/src/parser.rs, interpreter.rs, ast.rs'},
                              'rendered': 'replay_driver searchfile <%s, %d levels> -> return code %d, stderr: %s' % (name, n, p.returncode, p.stderr.strip()[-300:]),
                              'backend': 'extra', 'witness': {'input': name, 'levels': n}, 'witness_replayed': True})
            else:
                ok += 1
        return {'status': 'fail' if fails else 'ok', 'failures': fails, 'obligations': 0, 'discharged': 0,
                'cmd': 'replay_driver searchfile <deep inputs> (subprocess on the real crate)', 'demonstrated': [f['label'] for f in fails],
                'note': 'not a proof obligation: a demonstration that the known stack-depth finding still reproduces'}
    finally:
        shutil.rmtree(scratch, ignore_errors=True)


@extra
def expref_position(tier):
    """C03: the published grammar admits an expression reference ('&' expression) only as a function argument; this
    implementation treats it as a prefix form of any expression.  specs/grammar.rs follows the implementation in
    this one place (flagged there), so the deviation is not an obligation of the refinement proof; it is a known
    finding, re-demonstrated on the real crate each run.  Each input is its own obligation, so the line disappears
    for an input the crate starts to reject, and nothing else is suppressed."""
    import replaydrv
    scratch = tempfile.mkdtemp(prefix='vf_expref_')
    try:
        try:
            replaydrv.build(scratch)
        except Exception as e:
            return {'status': 'undecided', 'reason': 'replay driver build failed: %r' % e}
        inputs = {
            'top-level': '&a',
            'dot-rhs': 'a.&b',
            'multi-select-list-element': '[&a]',
            'multi-select-hash-value': '{a: &b}',
            'filter-predicate': 'a[?&b]',
            'not-operand': '!&a',
            'or-operand': 'a || &b',
        }
        fails = []
        for name, e in inputs.items():
            r = replaydrv.run(scratch, 'search', e, '{}')
            if 'compile_err' in r:
                continue
            if 'ok' not in r and 'search_err' not in r:
                return {'status': 'undecided', 'reason': 'replay driver gave no verdict on %r: %r' % (e, r)}
            fails.append({'obligation': 'extra/expref_position#accepted:%s' % name, 'kind': 'accepted', 'label': name, 'properties': ['C03'],
                          'function': 'parser.rs::Parser::nud (Token::Ampersand arm) / Parser::parse_dot',
                          'message': 'compile(%r) is Ok; the grammar has expression-type only under function-arg' % e,
                          'clause': 'expression-type = "&" expression occurs only as function-arg', 'site': {'repo': 'jmespath/src/parser.rs'},
                          'rendered': 'replay_driver search %r {} -> %s' % (e, json.dumps(r)[:300]),
                          'backend': 'extra', 'witness': {'expression': e}, 'witness_replayed': True})
        return {'status': 'fail' if fails else 'ok', 'failures': fails, 'obligations': 0, 'discharged': 0,
                'cmd': 'replay_driver search <expression with & outside a call> {} (subprocess on the real crate)',
                'demonstrated': [f['label'] for f in fails],
                'note': 'not a proof obligation: a demonstration that the known expression-reference finding still reproduces'}
    finally:
        shutil.rmtree(scratch, ignore_errors=True)


def _derive_table():
    """type name -> sorted list of derived traits, for every struct/enum in jmespath/src"""
    found = {}
    for f in sorted(os.listdir(_src())):
        if not f.endswith('.rs'):
            continue
        src = open(_src(f)).read()
        mask = R.mask_source(src)
        for m in re.finditer(r'\b(?:pub(?:\([^)]*\))?\s+)?(struct|enum)\s+(\w+)', mask):
            # attributes directly above the item
            head = mask[:m.start()]
            k = len(head.rstrip())
            derives = []
            while True:
                mm = re.search(r'#\[([^\]]*)\]\s*$', head[:k])
                if not mm:
                    break
                d = re.match(r'\s*derive\s*\(([^)]*)\)', mm.group(1))
                if d:
                    derives += [x.strip() for x in d.group(1).split(',') if x.strip()]
                k = len(head[:mm.start()].rstrip())
            found['%s::%s' % (f, m.group(2))] = sorted(set(derives))
    return found


@extra
def derive_inventory(tier):
    """T3 ("derives are structural") is an assumption of the units: Clone / PartialEq / Debug of Expression, Ast,
    Variable's helper types etc. are taken to be the compiler-generated structural impls.  If a type loses a derive
    (a hand-written impl may have replaced it) or gains one, the assumption no longer describes the code:
    UNDECIDED (exit 2), never a violation."""
    rec = json.load(open(os.path.join(VERIF, 'config', 'derives.json')))
    found = _derive_table()
    diffs = []
    for k in sorted(rec):           # only the types the units declare with assumed (derived) impls
        if rec.get(k) != found.get(k):
            diffs.append('%s: recorded %s, found %s' % (k, rec.get(k), found.get(k)))
    if diffs:
        return {'status': 'undecided', 'reason': 'derive inventory differs from config/derives.json (T3 no longer describes the code): ' + '; '.join(diffs)[:600]}
    return {'status': 'ok', 'failures': [], 'obligations': len(found), 'discharged': len(found),
            'cmd': 'scan of #[derive(..)] on every struct/enum in jmespath/src against config/derives.json',
            'functions': ['derive table: %d types' % len(found)]}


CFG_EXPECTED = None


@extra
def cfg_inventory(tier):
    """C17: the set of cfg(feature = ...) sites in jmespath/src must equal the recorded set (Rcvar alias, the ToJmespath
    impls, the crate attribute / docs).  A new site means behaviour may differ between feature sets in a place no unit
    covers: UNDECIDED (exit 2), not a violation."""
    import json
    rec = json.load(open(os.path.join(VERIF, 'config', 'cfg_sites.json')))
    found = {}
    for f in sorted(os.listdir(_src())):
        if not f.endswith('.rs'):
            continue
        src = open(_src(f)).read()
        mask = R.mask_source(src)
        for m in re.finditer(r'cfg(?:_attr)?\s*\(\s*(not\s*\(\s*)?feature\s*=\s*"', mask):
            # the feature name is inside a string literal (blanked in the mask): read it from the source
            mm = re.match(r'cfg(?:_attr)?\s*\(\s*(not\s*\(\s*)?feature\s*=\s*"(\w+)"', src[m.start():])
            if not mm:
                continue
            # what does the attribute guard?  the next item keyword after the attribute
            tail = mask[m.end():m.end() + 400]
            km = re.search(r'\b(pub\s+type\s+\w+|type\s+\w+|impl\b[^{]*|default\s+fn\s+\w+|fn\s+\w+|use\s+[\w:]+|doc\b)', tail)
            what = re.sub(r'\s+', ' ', src[m.end() + km.start():m.end() + km.end()]).strip() if km else '?'
            key = '%s|%s%s|%s' % (f, 'not ' if mm.group(1) else '', mm.group(2), what[:60])
            found[key] = found.get(key, 0) + 1
    exp = rec['sites']
    if found != exp:
        new = sorted(set(found) - set(exp))
        gone = sorted(set(exp) - set(found))
        return {'status': 'undecided', 'reason': 'cfg(feature) sites differ from the recorded inventory: new=%s gone=%s' % (new[:4], gone[:4]), 'found': found}
    return {'status': 'ok', 'obligations': len(exp), 'discharged': len(exp), 'cmd': 'tools/extras.py cfg_inventory', 'sites': found}


@extra
def feature_builds(tier):
    """C17: the crate type-checks under {default, sync} (stable) and {specialized, specialized+sync} (nightly)."""
    scratch = tempfile.mkdtemp(prefix='vf_feat_')
    try:
        crate = os.path.join(scratch, 'jmespath')
        subprocess.run(['rsync', '-a', '--exclude', 'target', _crate() + '/', crate + '/'], check=True)
        combos = [(None, []), (None, ['sync'])]
        if tier == 'thorough':
            combos += [('nightly', ['specialized']), ('nightly', ['specialized', 'sync'])]
        fails = []
        done = []
        for tc, feats in combos:
            args = ['check', '--offline', '--lib'] + (['--features', ','.join(feats)] if feats else [])
            env = dict(os.environ, CARGO_NET_OFFLINE='true', CARGO_TARGET_DIR=os.path.join(scratch, 'target'))
            env.pop('RUSTUP_TOOLCHAIN', None)
            cmd = ['cargo'] + (['+' + tc] if tc else []) + args
            p = subprocess.run(cmd, cwd=crate, env=env, capture_output=True, text=True, timeout=900)
            name = '+'.join(feats) or 'default'
            if p.returncode != 0:
                if 'error[' in p.stderr or 'error:' in p.stderr:
                    fails.append({'obligation': 'extra/feature_builds#build:%s' % name, 'kind': 'build', 'label': name, 'properties': ['C17'],
                                  'function': 'crate', 'message': 'crate does not build with features [%s]' % name, 'clause': 'builds under every feature set',
                                  'site': {'repo': 'jmespath/'}, 'rendered': p.stderr[-1500:], 'backend': 'extra', 'witness': {'features': feats}, 'witness_replayed': True})
                else:
                    return {'status': 'undecided', 'reason': 'cargo failed: ' + p.stderr[-300:]}
            done.append(name)
        return {'status': 'fail' if fails else 'ok', 'failures': fails, 'obligations': len(combos), 'discharged': len(combos) - len(fails),
                'cmd': 'cargo [+nightly] check --offline --lib [--features ...] on a scratch copy', 'feature_sets': done}
    finally:
        shutil.rmtree(scratch, ignore_errors=True)
