"""Non-verifier side checks attached to a property (mechanical scans, rustc trait
obligations, re-demonstration of known findings).  Each returns a dict:
{name, status: ok|fail|undecided, reason, failures:[...], obligations, discharged, trusted:[...]}"""
import os
import re
import subprocess
import sys
import tempfile
import shutil
import time

VERIF = os.path.dirname(os.path.dirname(os.path.abspath(__file__)))
REPO = os.environ.get('VERIF_REPO', '/repo')

REGISTRY = {}


def extra(fn):
    REGISTRY[fn.__name__] = fn
    return fn


def run_extra(name, tier):
    fn = REGISTRY.get(name)
    if not fn:
        return {'name': name, 'status': 'undecided', 'reason': 'unknown extra', 'failures': []}
    t0 = time.time()
    try:
        r = fn(tier)
    except Exception as e:  # never an alarm
        r = {'status': 'undecided', 'reason': 'crashed: %r' % e, 'failures': []}
    r['name'] = name
    r.setdefault('failures', [])
    r.setdefault('reason', '')
    r['wall_s'] = round(time.time() - t0, 2)
    return r
