#!/bin/bash
# usage: tools/harvest_round.sh <round dir> <round number> <suffix for a> <suffix for b> <pid>...
# Confirms and imports the deliveries of one property's sub-agent (own confirm worktree per property, removed afterwards).
R=$1; N=$2; SA=$3; SB=$4; shift 4
for P in "$@"; do
  (
    export CONFIRM_WT=/tmp/confirm_wt_$P SEED_ROUND=$N
    python3 $(dirname $0)/harvest_seeded.py $R/out/$P/a $P-$SA $P
    python3 $(dirname $0)/harvest_seeded.py $R/out/$P/b $P-$SB $P
    git -C /repo worktree remove --force $CONFIRM_WT 2>/dev/null; rm -f $CONFIRM_WT.with.log $CONFIRM_WT.without.log
  ) &
done
wait
