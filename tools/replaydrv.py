"""Replay of verifier witnesses against the real crate (best effort; never decides anything).
Builds replay_driver/ (a tiny crate that depends on the working tree's jmespath crate by path) in scratch."""
import json
import os
import shutil
import subprocess

VERIF = os.path.dirname(os.path.dirname(os.path.abspath(__file__)))
_built = {}


def crate_path():
    if os.environ.get('VERIF_REPO_SRC'):
        return os.path.dirname(os.environ['VERIF_REPO_SRC'].rstrip('/'))
    return os.path.join(os.environ.get('VERIF_REPO', '/repo'), 'jmespath')


def build(scratch):
    if scratch in _built:
        return _built[scratch]
    d = os.path.join(scratch, 'replay_driver')
    shutil.copytree(os.path.join(VERIF, 'replay_driver'), d)
    t = open(os.path.join(d, 'Cargo.toml.in')).read().replace('@CRATE@', crate_path())
    open(os.path.join(d, 'Cargo.toml'), 'w').write(t)
    lock = os.path.join(crate_path(), 'Cargo.lock')
    env = dict(os.environ, CARGO_NET_OFFLINE='true', CARGO_TARGET_DIR=os.path.join(scratch, 'rd_target'))
    env.pop('RUSTUP_TOOLCHAIN', None)
    p = subprocess.run(['cargo', 'build', '--offline', '-q'], cwd=d, env=env, capture_output=True, text=True, timeout=600)
    if p.returncode != 0:
        raise RuntimeError('replay driver build failed: ' + p.stderr[-500:])
    exe = os.path.join(scratch, 'rd_target', 'debug', 'replay_driver')
    _built[scratch] = exe
    return exe


def run(scratch, *args):
    exe = build(scratch)
    p = subprocess.run([exe] + [str(a) for a in args], capture_output=True, text=True, timeout=60)
    out = p.stdout.strip().split('\n')[-1] if p.stdout.strip() else ''
    try:
        return json.loads(out)
    except Exception:
        return {'raw': p.stdout[-300:], 'stderr': p.stderr[-300:], 'returncode': p.returncode}


def replay(harness, witness, scratch):
    if harness in ('float_eq_refl_sym', 'float_eq_separated', 'compare_consistent'):
        a, b = witness[0]['bits'], witness[1]['bits']
        r = run(scratch, 'float', a, b)
        rep = False
        if 'eq' in r:
            if harness == 'float_eq_separated':
                rep = r['eq'] is True or (int(r['lt']) + int(r['gt']) + int(r['eq']) != 1)
            elif harness == 'float_eq_refl_sym':
                rep = r['eq'] != r['eq_rev'] or (r['num_eq'] and not r['eq'])
            else:
                rep = (r['le'] != (r['lt'] or r['eq'])) or (r['ge'] != (r['gt'] or r['eq'])) or (r['ne'] == r['eq']) \
                    or r['lt'] != r['num_lt'] or r['gt'] != r['num_gt']
        return {'driver': 'replay_driver float %s %s' % (a, b), 'observed': r, 'reproduced': rep}
    if harness == 'err_new_coords':
        c1 = int(witness[0]['value'][2:], 16)
        c2 = int(witness[1]['value'][2:], 16)
        off = witness[2]['value']
        r = run(scratch, 'errnew', '%x' % c1, '%x' % c2, off)
        s = chr(c1) + chr(c2)
        before = [ch for ch in s if s.encode('utf-8').index(ch.encode('utf-8')) < off] if False else None
        # expected coordinates
        starts = [0, len(chr(c1).encode('utf-8'))]
        chars = [chr(c1), chr(c2)]
        line = col = 0
        for st, ch in zip(starts, chars):
            if st < off:
                if ch == '\n':
                    line += 1
                    col = 0
                else:
                    col += 1
        rep = r.get('panicked') or r.get('line') != line or r.get('column') != col
        return {'driver': 'replay_driver errnew %x %x %d' % (c1, c2, off), 'observed': r, 'expected': {'line': line, 'column': col}, 'reproduced': bool(rep)}
    return None


def probe_slice(scratch):
    """Clause-derived probe for failed obligations of unit `slice` (never decides anything): boundary values of
    (len, start, stop, step) evaluated on the real crate and compared with Python's list[start:stop:step]."""
    exe = build(scratch)
    I = 2 ** 31
    ends = [None, 0, 1, 2, 3, 5, -1, -2, -3, -4, -5, I - 1, -(I - 1)]
    steps = [1, 2, 3, -1, -2, -3, I - 1, -(I - 1)]
    probes = []
    for n in range(0, 5):
        for a in ends:
            for b in ends:
                for st in steps:
                    probes.append((n, a, b, st))
    inp = '\n'.join('%d %s %s %d' % (n, '-' if a is None else a, '-' if b is None else b, st) for n, a, b, st in probes)
    p = subprocess.run([exe, 'slices'], input=inp, capture_output=True, text=True, timeout=600)
    bad = []
    for (n, a, b, st), line in zip(probes, p.stdout.strip().split('\n')):
        try:
            r = json.loads(line)
        except Exception:
            continue
        want = list(range(n))[slice(a, b, st)]
        got = r.get('ok')
        if r.get('panicked') or got != want:
            bad.append({'expression': r.get('expr'), 'document': list(range(n)), 'expected': want, 'observed': 'panic' if r.get('panicked') else r.get('ok', r)})
            if len(bad) >= 3:
                break
    return {'driver': 'replay_driver slices (%d boundary probes vs Python list slicing)' % len(probes), 'failing_inputs': bad, 'reproduced': bool(bad)}
