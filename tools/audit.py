#!/usr/bin/env python3
"""Sensitivity audit (thorough tier): apply each committed mutant relevant to the given units to a scratch copy of
jmespath/src, run the unit, report which obligation killed it."""
import json, os, re, shutil, sys, tempfile
sys.path.insert(0, os.path.dirname(os.path.abspath(__file__)))
VERIF = os.path.dirname(os.path.dirname(os.path.abspath(__file__)))


def run_audit(units):
    import runner
    import extract as X
    spec = json.load(open(os.path.join(VERIF, 'audit', 'mutants.json')))
    out = []
    baseline = {}
    for u in units:
        r0 = runner.run_unit(u)
        baseline[u] = set(f['obligation'] for f in r0.failures)      # known findings etc. fail on the unmutated tree too
    base = os.environ.get('VERIF_REPO_SRC') or os.path.join(os.environ.get('VERIF_REPO', '/repo'), 'jmespath', 'src')
    for m in spec['mutants']:
        us = [u for u in m['units'] if u in units]
        if not us:
            continue
        d = tempfile.mkdtemp(prefix='vf_audit_')
        try:
            shutil.copytree(base, os.path.join(d, 'src'))
            p = os.path.join(d, 'src', m['file'])
            s = open(p).read()
            s2, n = re.subn(m['re'], m['sub'], s, count=1)
            if n != 1:
                out.append({'id': m['id'], 'result': 'not-applicable (pattern not found: the code changed)'})
                continue
            open(p, 'w').write(s2)
            old = X.REPO_SRC
            X.REPO_SRC = os.path.join(d, 'src')
            try:
                killed = []
                und = []
                for u in us:
                    r = runner.run_unit(u)
                    if r.status != 'ok':
                        und.append('%s: %s' % (u, (r.undecided_reason or '')[:120]))
                    killed += [f['obligation'] for f in r.failures if f['obligation'] not in baseline.get(u, set())]
            finally:
                X.REPO_SRC = old
            out.append({'id': m['id'], 'units': us, 'result': 'killed' if killed else ('undecided' if und else 'SURVIVED'),
                        'killed_by': sorted(set(killed))[:4], 'undecided': und})
        finally:
            shutil.rmtree(d, ignore_errors=True)
    return out


if __name__ == '__main__':
    for r in run_audit(sys.argv[1:] or ['slice', 'lbp', 'validate', 'sigtable', 'interp', 'eq', 'runtime', 'builtins', 'parser', 'lexer', 'serde_ser', 'serde_de', 'tojmespath']):
        print('%-36s %-10s %s' % (r['id'], r['result'], (r.get('killed_by') or r.get('undecided') or [''])[0][:110]))
