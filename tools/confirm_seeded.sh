#!/bin/bash
# usage: tools/confirm_seeded.sh <dir with patch.diff demo.rs> [extra cargo args for demo, e.g. "--features sync"]
# Confirms in a scratch worktree: patch applies; full suite passes with it; demo FAILS with it; demo PASSES without it.
# Prints one JSON line.
set -u
D=$(readlink -f "$1"); shift
EXTRA="$*"
WT=${CONFIRM_WT:-/tmp/confirm_wt}
if [ ! -d $WT ]; then git -C /repo worktree add --detach $WT HEAD -q; fi
cd $WT && git checkout -q --detach $(git -C /repo rev-parse HEAD) 2>/dev/null; git checkout -q -- . ; rm -f jmespath/tests/seeded_demo.rs
res() { echo "{\"dir\":\"$D\",\"applies\":$1,\"suite_passes_with_patch\":$2,\"demo_fails_with_patch\":$3,\"demo_passes_without_patch\":$4,\"extra\":\"$EXTRA\"}"; }
if ! git apply --check "$D/patch.diff" 2>/dev/null; then res false null null null; exit 0; fi
git apply "$D/patch.diff"
cd jmespath
SUITE=true
out=$(cargo test --workspace --no-fail-fast --offline 2>&1); echo "$out" | grep -q "test result: FAILED\|error\[" && SUITE=false
echo "$out" | grep -q "test result: ok" || SUITE=false
cp "$D/demo.rs" tests/seeded_demo.rs
TC=""; case "$EXTRA" in *specialized*) TC="+nightly";; esac
cargo $TC test --offline $EXTRA --test seeded_demo >$WT.with.log 2>&1; rc1=$?
FAILS=false; [ $rc1 -ne 0 ] && grep -q "test result: FAILED\|panicked\|FAILED\|error\[E\|could not compile" $WT.with.log && FAILS=true
cd $WT && git checkout -q -- . && cd jmespath
cargo $TC test --offline $EXTRA --test seeded_demo >$WT.without.log 2>&1; rc2=$?
PASSES=false; [ $rc2 -eq 0 ] && grep -q "test result: ok" $WT.without.log && PASSES=true
rm -f tests/seeded_demo.rs
res true $SUITE $FAILS $PASSES
