#!/usr/bin/env python3
"""Regenerate MANIFEST.json from config/properties.json (+ config/not_applicable.json) and validate it."""
import json, os, subprocess, sys
VERIF = os.path.dirname(os.path.dirname(os.path.abspath(__file__)))
cfg = json.load(open(os.path.join(VERIF, 'config/properties.json')))
na = json.load(open(os.path.join(VERIF, 'config/not_applicable.json')))
checks = []
for pid in sorted(cfg):
    pc = cfg[pid]
    m = pc['manifest']
    checks.append({
        'property_id': pid,
        'quick_cmd': 'bin/check %s --tier quick' % pid,
        'thorough_cmd': 'bin/check %s --tier thorough' % pid,
        'evidence_file': '/verif/evidence/%s.json' % pid,
        'replay_cmd_template': 'bin/check --replay {path}',
        'engine': m.get('engine', 'verus'),
        'level_claimed': {'category': pc.get('level', 'proof'), 'text': m['level_text'], 'design_ref': m.get('design_ref', 'DESIGN.md section 5, ' + pid)},
        'level_note': m['level_note'],
        'technique': m['technique'],
    })
claimed = set(cfg)
man = {
    'version': 1,
    'setup_cmd': 'bin/setup',
    'hooks': {
        'guard': 'none',
        'enable': 'not applicable: no hook or instrumentation exists in /repo; Verus sees functions extracted from the working tree on every run, Kani sees a scratch rsync copy of the working tree with harness modules injected',
        'baseline_off_cmd': 'cd /repo/jmespath && cargo test --workspace --no-fail-fast --offline',
        'source_commits': [],
        'add_only': True,
    },
    'engines': [
        {'name': 'verus', 'path': 'tools/runner.py', 'serves_properties': sorted(p for p in cfg if cfg[p].get('units')),
         'kind_free_text': 'deductive verifier (Verus 0.2026.09.13 / Z3) on function bodies extracted mechanically from /repo each run, contracts spliced from units/*.vu'},
        {'name': 'kani', 'path': 'tools/kani_run.py', 'serves_properties': sorted(p for p in cfg if cfg[p].get('kani_quick') or cfg[p].get('kani_thorough')),
         'kind_free_text': 'Kani 0.68 / CBMC 6.11 harnesses on a scratch copy of the real crate: loop-free full-domain harnesses are complete proofs; harnesses with an unwind bound are bounded stand-ins and never counted as proved'},
    ],
    'checks': checks,
    'notes': 'Contract-based deductive verification of the real code. Exit 2 from a check means undecided (lost anchor, unsupported construct, solver limit) and is never an alarm. Genuine defects found are in known_findings.json (fixed ones as fix: commits in /repo).',
    'not_applicable': [x for x in na if x['property_id'] not in claimed],
}
out = os.path.join(VERIF, 'MANIFEST.json')
json.dump(man, open(out, 'w'), indent=1)
try:
    import jsonschema
    jsonschema.validate(man, json.load(open('/root/.vp/MANIFEST.schema.json')))
    print('MANIFEST.json valid;', len(checks), 'checks,', len(man['not_applicable']), 'not applicable')
except ImportError:
    print('jsonschema not importable here; run with python3-vt to validate')
