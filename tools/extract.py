"""Mechanical extraction of real function bodies from /repo into a single Verus file.

A *unit* is described by units/<name>.vu (format below).  On every run the
items it names are located by name in the current working tree, copied
verbatim, passed through the logged rewrite rules (R0..R8, DESIGN.md 3.1) and
have contract text spliced in.  Every generated line remembers where it came
from, so that a Verus diagnostic can be turned into a named obligation.

.vu format
----------
    === meta
    serves: C07 C05            default properties served by the unit
    === crate
    #![feature(allocator_api)]            (optional crate-level lines, before `use`)
    === text [label]
    <verus/rust text copied verbatim into the verus! block>
    === include <path relative to /verif>
    === extract <file> :: <step> [:: <step>]
    @serves C07                property ids for unlabelled obligations of this item
    @attr <attribute line>     put before the item
    @result <name>             name the return value:  -> T   =>  -> (name: T)
    @contract                  text spliced between signature and `{`
      ...                      a line `//# label [C01 C02]` names the clauses after it
    @loop <n> [iter=<name>]    text spliced between the header of the n-th loop and its `{`
      ...                      (iter=: R6, `for x in E` => `for x in name: E`)
    @before /regex/            text inserted immediately before the unique match
    @after /regex/             text inserted immediately after the unique match
    @bind /regex/ <name>       R8: the unique match E (a tail expression) becomes
      ...                         `{ let name = E; <text> name }`
    @wrap /regex/              R8: the unique match E becomes `{ <text> E }` (ghost text before an arm expression)
    @replace /regex/ [count=n] [rule=R5]    replacement (python re syntax, \\1 groups)
      ...
    @rule R1|R7                apply an automatic rewrite rule to this item
    @external                  keep signature+contract, body becomes unimplemented!()  (TRUSTED)
    @as <impl header>          re-emit a method under another impl header (R4 lift), e.g. `impl Variable`
    @rename <new fn name>
    @skip-header               emit a method without wrapping it in its impl block
    === expand <file> :: <macro-invocation regex>   (R3; see macro_expand)
"""
import hashlib
import json
import os
import re
import sys

sys.path.insert(0, os.path.dirname(__file__))
import rustscan as R  # noqa: E402

VERIF = os.path.dirname(os.path.dirname(os.path.abspath(__file__)))
REPO_SRC = os.environ.get('VERIF_REPO_SRC', '/repo/jmespath/src')


class UnitError(Exception):
    """Extraction could not be done (lost anchor, refused rule): undecided, exit 2."""


# ---------------------------------------------------------------- .vu parsing
def parse_vu(path):
    sections = []
    cur = None
    with open(path) as f:
        lines = f.read().split('\n')
    for no, line in enumerate(lines, 1):
        if line.startswith('=== '):
            head = line[4:].strip()
            kind, _, arg = head.partition(' ')
            cur = {'kind': kind, 'arg': arg.strip(), 'line': no, 'body': [], 'dirs': []}
            sections.append(cur)
            continue
        if cur is None:
            if line.strip() and not line.startswith('#'):
                raise UnitError('%s:%d: text before first section' % (path, no))
            continue
        if cur['kind'] in ('extract', 'expand') and line.startswith('@'):
            m = re.match(r'@([a-z-]+)\s*(.*)$', line)
            d = {'name': m.group(1), 'arg': m.group(2).strip(), 'line': no, 'text': []}
            cur['dirs'].append(d)
            continue
        if cur['kind'] in ('extract', 'expand') and cur['dirs']:
            cur['dirs'][-1]['text'].append((no, line))
        else:
            cur['body'].append((no, line))
    return sections


def parse_regex_arg(arg, where):
    m = re.match(r'/(.*)/\s*(.*)$', arg)
    if not m:
        raise UnitError('%s: expected /regex/: %r' % (where, arg))
    return m.group(1), m.group(2).strip()


# ---------------------------------------------------------------- segments
class Seg:
    __slots__ = ('text', 'kind', 'ref', 'label')

    def __init__(self, text, kind, ref, label=None):
        self.text = text      # str
        self.kind = kind      # 'repo' | 'spec' | 'gen'
        self.ref = ref        # repo: (relpath, src_offset, src) ; spec: (vu_path, first_line)
        self.label = label


class Emitter:
    def __init__(self):
        self.lines = []       # (text, origin dict)

    def emit_text(self, text, origin):
        for k, l in enumerate(text.split('\n')):
            o = dict(origin)
            if 'line' in o and o.get('kind') == 'spec':
                o['line'] = o['line'] + k
            self.lines.append((l, o))


# ---------------------------------------------------------------- rewrite rules
R1_PAT = re.compile(r'(?<![=!]=\s)&(?=(?:Token|Variable|Ast)::[A-Za-z]+(?:\s*\([^()]*\))?\s*(?:=>|\||if\b))')


def rule_R1(text, mask):
    """ref patterns: `&Path::Variant(..)` in match-arm patterns => `Path::Variant(..)`."""
    edits = []
    for m in R1_PAT.finditer(mask):
        edits.append((m.start(), m.end(), '', 'R1 ref-pattern'))
    return edits


R7_PAT = re.compile(r'for\s*\(\s*(\w+)\s*,\s*(\w+)\s*\)\s*in\s+([\w.\[\]]+?)\.iter\(\)\.enumerate\(\)(?:\.skip\((\d+)\))?\s*\{')


def rule_R7(text, mask):
    """`for (i, v) in E.iter().enumerate()[.skip(K)] { B }` =>
       `{ let mut i: usize = K; while i < E.len() { let v = &E[i]; B; i += 1; } }`"""
    edits = []
    for m in R7_PAT.finditer(mask):
        i, v, e, k = m.group(1), m.group(2), m.group(3), m.group(4) or '0'
        o = m.end() - 1
        c = R.match_close(mask, o)
        body = mask[o + 1:c]
        if re.search(r'\bcontinue\b', body):
            raise UnitError('R7 refused: loop body contains `continue`')
        head = '{ let mut %s: usize = %s; while %s < %s.len() ' % (i, k, i, e)
        edits.append((m.start(), o, head, 'R7 enumerate-loop'))
        edits.append((o + 1, o + 1, ' let %s = &%s[%s]; ' % (v, e, i), 'R7 enumerate-loop (element binding)'))
        edits.append((c, c + 1, ' %s += 1; } }' % i, 'R7 enumerate-loop (increment)'))
    return edits


R2_PAT = re.compile(r'Some\(&\(')


def rule_R2(text, mask):
    """peek patterns: `Some(&(p, c))` on `iter.peek()` => `Some((p, c))` (the stream wrapper's peek copies the pair;
    (usize, char) is Copy)."""
    return [(m.start(), m.end(), 'Some((', 'R2 peek-pattern') for m in R2_PAT.finditer(mask)]


AUTO_RULES = {'R1': rule_R1, 'R2': rule_R2, 'R7': rule_R7}


# ---------------------------------------------------------------- macro expansion (R3)
def macro_arms(src, name):
    item, _ = R.locate(src, 'macro', ['macro ' + name])
    body = item.body
    mask = R.mask_source(body)
    arms = []
    i = 0
    n = len(body)
    while i < n:
        while i < n and mask[i] in ' \n\t;':
            i += 1
        if i >= n:
            break
        if mask[i] != '(':
            raise UnitError('macro %s: cannot parse arm at %r' % (name, body[i:i + 30]))
        pc = R.match_close(mask, i)
        pat = body[i + 1:pc]
        j = mask.index('=>', pc) + 2
        while mask[j] in ' \n\t':
            j += 1
        bc = R.match_close(mask, j)
        arms.append((pat.strip(), body[j + 1:bc]))
        i = bc + 1
    return arms


def split_top(s, sep=','):
    mask = R.mask_source(s)
    parts, depth, last = [], 0, 0
    for k, c in enumerate(mask):
        if c in '([{':
            depth += 1
        elif c in ')]}':
            depth -= 1
        elif c == sep and depth == 0:
            parts.append(s[last:k])
            last = k + 1
    parts.append(s[last:])
    return [p.strip() for p in parts]


def expand_arg_macro(src, inner):
    """arg!(x) / arg!(x | y | z) using the arms read from the source."""
    arms = macro_arms(src, 'arg')
    toks = [t.strip() for t in inner.split('|')]
    if len(toks) == 1:
        for pat, body in arms:
            if pat == toks[0]:
                return '(' + body.strip() + ')'
        raise UnitError('arg!: no arm for %r' % inner)
    for pat, body in arms:
        if pat.startswith('$('):
            m = re.search(r'\$\((.*?)\)\s*(\S)\s*\*', body)
            if not m:
                raise UnitError('arg!: cannot read repetition arm')
            inner_t, sep = m.group(1), m.group(2)
            reps = []
            for t in toks:
                r = inner_t.replace('$x', t)
                r = re.sub(r'arg!\(([^()]*)\)', lambda mm: expand_arg_macro(src, mm.group(1)), r)
                reps.append(r)
            out = body[:m.start()] + (sep + ' ').join(reps) + body[m.end():]
            return '(' + out.strip() + ')'
    raise UnitError('arg!: no repetition arm')


def expand_simple_macro(src, name, inv_args):
    arms = macro_arms(src, name)
    if len(arms) != 1:
        raise UnitError('macro %s: expected one arm' % name)
    pat, body = arms[0]
    params = [p.split(':')[0].strip() for p in split_top(pat)]
    args = split_top(inv_args)
    if len(params) != len(args):
        raise UnitError('macro %s: arity mismatch' % name)
    out = body
    for p, a in sorted(zip(params, args), key=lambda pa: -len(pa[0])):
        out = out.replace(p, a)
    return out


def expand_macros_in(text, src):
    """Expand arg!(..), min_and_max!(..), min_and_max_by!(..) invocations in `text`."""
    log = []
    changed = True
    while changed:
        changed = False
        mask = R.mask_source(text)
        m = re.search(r'\b(arg|min_and_max_by|min_and_max)!\s*\(', mask)
        if m:
            o = m.end() - 1
            c = R.match_close(mask, o)
            inner = text[o + 1:c]
            if m.group(1) == 'arg':
                rep = expand_arg_macro(src, inner)
            else:
                rep = expand_simple_macro(src, m.group(1), inner)
            log.append('R3 %s!(%s)' % (m.group(1), R.norm_ws(inner)[:60]))
            text = text[:m.start()] + rep + text[c + 1:]
            changed = True
    return text, log


# ---------------------------------------------------------------- item processing
class Generated:
    def __init__(self, unit):
        self.unit = unit
        self.em = Emitter()
        self.rules = []          # rewrite rule applications
        self.items = []          # functions under contract
        self.trusted = []        # external bodies etc.
        self.serves = []
        self.labels = []         # (label, props, item)
        self.crate_lines = []


def process_extract(gen, sec, vu_path):
    arg = sec['arg']
    relfile, _, loc = arg.partition('::')
    relfile = relfile.strip()
    steps = [s.strip() for s in loc.split('::') if s.strip()]
    path = os.path.join(REPO_SRC, relfile)
    try:
        src = open(path).read()
    except OSError as e:
        raise UnitError('lost anchor: %s' % e)
    try:
        item, chain = R.locate(src, relfile, steps)
    except R.LostAnchor as e:
        raise UnitError('lost anchor: %s' % e)
    where = '%s:%d' % (vu_path, sec['line'])
    dirs = sec['dirs']
    dnames = [d['name'] for d in dirs]
    text = item.text
    macro_expanded = False
    if any(d['name'] == 'expand-macros' for d in dirs):
        # R3: expand the crate's own macro invocations inside this item before anything else
        text2, log = expand_macros_in(text, src)
        if text2 == text:
            raise UnitError('lost anchor: %s:%d: @expand-macros but no own-macro invocation in %s' % (vu_path, sec['line'], ' :: '.join(steps)))
        for l in log:
            gen.rules.append({'rule': 'R3 own-macro', 'item': ' :: '.join(steps), 'file': relfile, 'line': item.first_line, 'after': l})
        text = text2
        macro_expanded = True
    is_fn = steps[-1].startswith('fn ')
    item_name = ' :: '.join(steps)
    short = re.sub(r'^(fn|enum|struct|const|type|trait) ', '', steps[-1])
    if len(steps) > 1:
        owner = re.sub(r'^impl\*? ', '', steps[-2])
        owner = owner.split(' for ')[-1].split('::')[-1]
        short = owner + '::' + short
    serves = None
    for d in dirs:
        if d['name'] == 'serves':
            serves = d['arg'].split()
    # (offset, end, text, kind, ref)   offsets into item.text
    edits = []

    def add_ins(off, d, prefix='', suffix=''):
        body = '\n'.join(l for _, l in d['text'])
        first = d['text'][0][0] if d['text'] else d['line']
        edits.append((off, off, prefix + body + suffix, 'spec', (d.get('file_override') or vu_path, first, d)))

    mask = R.mask_source(text)
    open_rel = item.open - item.start
    body_lo, body_hi = open_rel + 1, len(text) - 1

    def uniq(rx, d, opts=''):
        """unique match of rx in the item text; `nth=K of=N` selects the K-th of exactly N matches"""
        nth, of = 1, 1
        for o_ in opts.split():
            if o_.startswith('nth='):
                nth = int(o_[4:])
            elif o_.startswith('of='):
                of = int(o_[3:])
        ms = list(re.finditer(rx, text, re.S))
        # only matches that start outside comments
        ms = [m for m in ms if mask[m.start()] == text[m.start()] or text[m.start()] in '"\'']
        if len(ms) != max(of, nth if of == 1 and nth > 1 else of):
            raise UnitError('lost anchor: %s:%d: /%s/ matches %d times in %s (expected %d)' % (vu_path, d['line'], rx, len(ms), item_name, of))
        m = ms[nth - 1]
        if 't' in m.re.groupindex and m.group('t') is not None:      # (?P<t>..): the edit applies to this group, the rest is context
            return m.start('t'), m.end('t')
        return m.start(), m.end()

    external = 'external' in dnames
    groups = {}
    for d in dirs:
        if d['name'] == 'contract-from':
            cp = os.path.join(VERIF, 'contracts', d['arg'].strip() + '.txt')
            d['name'] = 'contract'
            d['text'] = [(k + 1, l) for k, l in enumerate(open(cp).read().rstrip('\n').split('\n'))]
            d['file_override'] = cp
            d['contract_name'] = d['arg'].strip()
    dnames = [d['name'] for d in dirs]
    for d in dirs:
        n = d['name']
        if n in ('serves', 'attr', 'external', 'as', 'rename', 'skip-header', 'spec-twin'):
            continue
        if n == 'result':
            if not is_fn:
                raise UnitError(where + ': @result on non-fn')
            hdr = text[:open_rel]
            hm = mask[:open_rel]
            # the return arrow is the first `->` after the parameter list (a where-clause may contain others)
            fnm = re.search(r'\bfn\s+\w+', hm)
            po = hm.index('(', fnm.end()) if fnm else -1
            pc = R.match_close(hm, po) if po >= 0 else -1
            a = hm.find('->', pc) if pc >= 0 else -1
            if a < 0:
                raise UnitError('%s: @result but no return type in %s' % (where, item_name))
            w = re.search(r'\bwhere\b', hm[a:])
            b = a + w.start() if w else open_rel
            ty = hdr[a + 2:b].strip()
            edits.append((a, b, '-> (%s: %s)%s' % (d['arg'], ty, '\n' if w else ' '), 'gen', 'result-name'))
        elif n == 'contract':
            add_ins(open_rel, d, '\n', '\n')
        elif n == 'start':
            add_ins(open_rel + 1, d, '\n', '\n')
        elif n == 'loop':
            parts = d['arg'].split()
            idx = int(parts[0])
            it = None
            for p in parts[1:]:
                if p.startswith('iter='):
                    it = p[5:]
            loops = R.loops_in(mask[body_lo:body_hi])
            if idx < 1 or idx > len(loops):
                raise UnitError('lost anchor: %s:%d: loop %d of %s (has %d loops)' % (vu_path, d['line'], idx, item_name, len(loops)))
            kw, br = loops[idx - 1]
            kw += body_lo
            br += body_lo
            add_ins(br, d, '\n', '\n')
            if it:
                m = re.match(r'for\s+(.+?)\s+in\s+', text[kw:br], re.S)
                if not m:
                    raise UnitError('%s: loop %d is not a for loop' % (where, idx))
                p = kw + m.end()
                edits.append((p, p, it + ': ', 'gen', 'R6 for-name'))
                gen.rules.append({'rule': 'R6 for-name', 'item': item_name, 'file': relfile, 'line': item.line_of(item.start + kw)})
        elif n in ('before', 'after'):
            rx, opts = parse_regex_arg(d['arg'], where)
            s, e = uniq(rx, d, opts)
            if n == 'before':
                add_ins(s, d, '', '\n')
            else:
                add_ins(e, d, '\n', '\n')
        elif n == 'wrap':
            rx, opts = parse_regex_arg(d['arg'], where)
            s, e = uniq(rx, d, opts)
            edits.append((s, s, '({ ', 'gen', 'R8 wrap-block'))
            body = '\n'.join(l for _, l in d['text'])
            first = d['text'][0][0] if d['text'] else d['line']
            edits.append((s, s, body + '\n', 'spec', (d.get('file_override') or vu_path, first, d)))
            edits.append((e, e, ' })', 'gen', 'R8 wrap-block'))
            gen.rules.append({'rule': 'R8 wrap-block', 'item': item_name, 'file': relfile,
                              'line': item.line_of(item.start + s), 'before': text[s:e][:120]})
        elif n == 'bind':
            rx, name = parse_regex_arg(d['arg'], where)
            name, _, opts = name.partition(' ')
            s, e = uniq(rx, d, opts)
            edits.append((s, s, '({ let %s = ' % name, 'gen', 'R8 bind-tail'))
            body = '\n'.join(l for _, l in d['text'])
            first = d['text'][0][0] if d['text'] else d['line']
            edits.append((e, e, '; ', 'gen', 'R8 bind-tail'))
            edits.append((e, e, body + '\n', 'spec', (vu_path, first, d)))
            edits.append((e, e, ' %s })' % name, 'gen', 'R8 bind-tail'))
            gen.rules.append({'rule': 'R8 bind-tail', 'item': item_name, 'file': relfile,
                              'line': item.line_of(item.start + s), 'before': text[s:e]})
        elif n == 'replace':
            rx, opts = parse_regex_arg(d['arg'], where)
            count = 1
            rule = 'R5 idiom'
            optional = False
            group = None
            for o in opts.split():
                if o == 'count=*':
                    count = None
                elif o.startswith('count='):
                    count = int(o[6:])
                elif o.startswith('rule='):
                    rule = o[5:]
                elif o == 'optional':
                    optional = True
                elif o.startswith('group='):
                    # alternatives: each rule of a group is optional, but at least one of them must apply - otherwise the
                    # statement the proof text was written for is gone and the item must not reach the verifier bare
                    optional = True
                    group = o[6:]
                    groups.setdefault(group, [0, d['line'], rx])
            rep = '\n'.join(l for _, l in d['text'])
            ms = [m for m in re.finditer(rx, text, re.S)]
            ms = [m for m in ms if m.end() > m.start() and mask[m.start()] == text[m.start()]]   # not inside comments/strings
            if ((count is None and len(ms) == 0) or (count is not None and len(ms) != count)) and not (optional and len(ms) == 0):
                raise UnitError('lost anchor: %s:%d: /%s/ matches %d times (expected %s) in %s' % (vu_path, d['line'], rx, len(ms), count, item_name))
            if group is not None:
                groups[group][0] += len(ms)
            for m in ms:
                new = m.expand(rep)
                edits.append((m.start(), m.end(), new, 'gen', rule))
                gen.rules.append({'rule': rule, 'item': item_name, 'file': relfile,
                                  'line': item.line_of(item.start + m.start()),
                                  'before': R.norm_ws(m.group(0))[:200], 'after': R.norm_ws(new)[:200]})
        elif n == 'rule':
            fn = AUTO_RULES.get(d['arg'])
            if not fn:
                raise UnitError('%s: unknown rule %s' % (where, d['arg']))
            es = fn(text, mask)
            if not es:
                raise UnitError('lost anchor: %s:%d: rule %s applies nowhere in %s' % (vu_path, d['line'], d['arg'], item_name))
            for (s, e, new, what) in es:
                edits.append((s, e, new, 'gen', what))
                gen.rules.append({'rule': what, 'item': item_name, 'file': relfile,
                                  'line': item.line_of(item.start + s), 'before': R.norm_ws(text[s:e])[:120], 'after': R.norm_ws(new)[:160]})
        elif n == 'expand-macros':
            pass
        else:
            raise UnitError('%s:%d: unknown directive @%s' % (vu_path, d['line'], n))

    for gname, (nmatch, gline, grx) in groups.items():
        if nmatch == 0:
            raise UnitError('lost anchor: %s:%d: none of the alternatives of group `%s` applies in %s' % (vu_path, gline, gname, item_name))
    # check overlap and build segments
    edits.sort(key=lambda t: (t[0], t[1]))
    segs = []
    pos = 0
    for (s, e, new, kind, ref) in edits:
        if s < pos:
            raise UnitError('%s: overlapping edits in %s' % (where, item_name))
        if s > pos:
            segs.append(Seg(text[pos:s], 'repo', (relfile, item.start + pos)))
        segs.append(Seg(new, kind, ref))
        pos = e
    if pos < len(text):
        segs.append(Seg(text[pos:], 'repo', (relfile, item.start + pos)))

    if external:
        # keep everything up to the body's opening brace (signature + contract)
        kept = []
        acc = 0
        cut = None
        # find position of body open brace in the edited text: it is the first repo '{' at open_rel
        for sg in segs:
            if sg.kind == 'repo':
                off = sg.ref[1] - item.start
                if off <= open_rel < off + len(sg.text):
                    k = open_rel - off
                    kept.append(Seg(sg.text[:k], 'repo', sg.ref))
                    cut = True
                    break
            kept.append(sg)
        segs = kept + [Seg('{ unimplemented!() }', 'gen', 'external_body')]
        gen.trusted.append({'kind': 'external_body (body not verified; contract assumed)', 'item': item_name,
                            'file': relfile, 'lines': [item.first_line, item.last_line]})

    # macro expansion on repo segments if requested

    # wrap in impl header(s)
    pre, post = '', ''
    as_hdr = None
    rename = None
    attrs = []
    for d in dirs:
        if d['name'] == 'as':
            as_hdr = d['arg']
        elif d['name'] == 'rename':
            rename = d['arg']
        elif d['name'] == 'attr':
            attrs.append(d['arg'])
    if external:
        attrs.append('#[verifier::external_body]')
    if len(chain) > 1 and 'skip-header' not in dnames:
        if as_hdr:
            hdr = as_hdr
            gen.rules.append({'rule': 'R4 lift', 'item': item_name, 'file': relfile, 'line': item.first_line,
                              'before': R.norm_ws(chain[-2].header), 'after': as_hdr})
        else:
            hdr = R.norm_ws(chain[-2].header)
        pre = hdr + ' {\n'
        post = '\n}\n'
    if rename:
        for sg in segs:
            if sg.kind == 'repo':
                m = re.search(r'\bfn\s+(\w+)', sg.text)
                if m:
                    sg.text = sg.text[:m.start(1)] + rename + sg.text[m.end(1):]
                    break

    em = gen.em
    em.emit_text('// ---- %s  (%s:%d-%d)' % (item_name, relfile, item.first_line, item.last_line), {'kind': 'gen'})
    if pre:
        em.emit_text(pre.rstrip('\n'), {'kind': 'gen'})
    for d in dirs:
        if d['name'] == 'spec-twin':
            # R9: a loop-free body is additionally emitted as a spec fn with the same text
            if R.loops_in(mask[body_lo:body_hi]):
                raise UnitError('%s: @spec-twin on a function with loops' % where)
            hdr = text[:open_rel]
            twin_hdr = re.sub(r'\bfn\s+\w+', 'fn ' + d['arg'], hdr, count=1)
            twin_hdr = re.sub(r'^\s*(pub(\([^)]*\))?\s+)?', '', twin_hdr)
            tw = 'pub open spec fn ' + twin_hdr[twin_hdr.index('fn ') + 3:] + text[open_rel:]
            gen.rules.append({'rule': 'R9 spec-twin', 'item': item_name, 'file': relfile, 'line': item.first_line, 'after': d['arg']})
            for l in tw.split('\n'):
                em.lines.append((l, {'kind': 'repo', 'file': 'jmespath/src/' + relfile, 'line': item.first_line, 'item': short + '(spec twin)', 'serves': serves}))
    for a in attrs:
        em.emit_text(a, {'kind': 'gen'})
    # emit segments with per-line origin
    emit_segments(gen, segs, item, short, serves, vu_path, approx=macro_expanded)
    if post:
        em.emit_text(post.strip('\n'), {'kind': 'gen'})
    sha = hashlib.sha256(item.text.encode()).hexdigest()[:16]
    gen.items.append({'item': item_name, 'short': short, 'file': 'jmespath/src/' + relfile,
                      'lines': [item.first_line, item.last_line], 'sha256_16': sha,
                      'external': external or any(d['name'] == 'attr' and 'verifier::external' in d['arg'] for d in dirs),
                      'has_contract': 'contract' in dnames,
                      'contract_name': next((d.get('contract_name') for d in dirs if d.get('contract_name')), None),
                      'serves': serves})
    return short


def emit_segments(gen, segs, item, short, serves, vu_path, approx=False):
    """Concatenate segments; assign each output line the origin of its first
    non-blank character."""
    chars = []
    for si, sg in enumerate(segs):
        chars.append((sg, len(sg.text)))
    full = ''.join(sg.text for sg in segs)
    # offsets
    bounds = []
    p = 0
    for sg in segs:
        bounds.append((p, p + len(sg.text), sg))
        p += len(sg.text)

    def seg_at(off):
        for a, b, sg in bounds:
            if a <= off < b:
                return a, sg
        return bounds[-1][0], bounds[-1][2]

    pos = 0
    cur_label = None
    cur_props = None
    for line in full.split('\n'):
        stripped = len(line) - len(line.lstrip())
        off = pos + min(stripped, max(len(line) - 1, 0))
        a, sg = seg_at(off) if line.strip() else seg_at(pos)
        o = {'item': short, 'serves': serves}
        if sg.kind == 'repo':
            relfile, src_off = sg.ref
            o.update(kind='repo', file='jmespath/src/' + relfile, line=(item.first_line if approx else item.line_of(src_off + (off - a))))
        elif sg.kind == 'spec':
            vu, first, d = sg.ref
            o.update(kind='spec', file=os.path.relpath(vu, VERIF), line=first + sg.text.count('\n', 0, off - a) - (1 if sg.text.startswith('\n') else 0),
                     directive=d['name'])
        else:
            o.update(kind='gen', what=sg.ref)
        m = re.match(r'\s*//#\s*([\w.-]+)\s*(?:\[([^\]]*)\])?', line)
        if m:
            cur_label = m.group(1)
            cur_props = m.group(2).split() if m.group(2) else None
            gen.labels.append({'label': cur_label, 'props': cur_props or serves, 'item': short})
        if o.get('kind') == 'spec':
            o['label'] = cur_label
            o['label_props'] = cur_props
        else:
            # labels only scope over the spliced block they appear in
            if not m and sg.kind == 'repo':
                cur_label, cur_props = None, None
        gen.em.lines.append((line, o))
        pos += len(line) + 1


def process_expand(gen, sec, vu_path):
    """=== expand <file> :: <regex>   R3: expand one own-macro invocation found by
    regex in <file> (e.g. `defn!\\(AbsFn,`), emit the expansion.  Directives:
    @contract-new  contract for the generated `new()`; @result name."""
    relfile, _, rx = sec['arg'].partition('::')
    relfile = relfile.strip()
    rx = rx.strip()
    src = open(os.path.join(REPO_SRC, relfile)).read()
    mask = R.mask_source(src)
    ms = list(re.finditer(rx, mask))
    if len(ms) != 1:
        raise UnitError('lost anchor: %s:%d: /%s/ matches %d times in %s' % (vu_path, sec['line'], rx, len(ms), relfile))
    m = ms[0]
    o = mask.index('(', m.start())
    c = R.match_close(mask, o)
    name = re.match(r'(\w+)!', src[m.start():]).group(1)
    inner = src[o + 1:c]
    line = src.count('\n', 0, m.start()) + 1
    text = expand_simple_macro(src, name, inner)
    text, log = expand_macros_in(text, src)
    gen.rules.append({'rule': 'R3 own-macro', 'item': '%s!(%s)' % (name, R.norm_ws(inner)[:80]), 'file': relfile, 'line': line, 'nested': log})
    tyname0 = split_top(inner)[0]
    # splice contract for `new`
    if not any(d['name'] == 'contract-new' for d in sec['dirs']) and any(d['name'] == 'proof-new' for d in sec['dirs']):
        sec['dirs'].append({'name': 'contract-new', 'arg': '', 'line': sec['line'], 'text': []})
    for d in sec['dirs']:
        if d['name'] == 'contract-new':
            body = '\n'.join(l for _, l in d['text'])
            mm = re.search(r'pub fn new\(\)\s*->\s*(\w+)\s*\{', text)
            if not mm:
                raise UnitError('expand: no `pub fn new()` in expansion of %s' % name)
            hint = ''
            for d2 in sec['dirs']:
                if d2['name'] == 'proof-new':
                    hint = '\n'.join(l for _, l in d2['text'])
            o2 = mm.end() - 1
            c2 = R.match_close(R.mask_source(text), o2)
            inner_body = text[o2 + 1:c2]
            if hint:
                # R8 bind on the generated constructor body: the signature value is named so that ghost hints
                # (and a type invariant, if any) can refer to it before the struct is built
                msig = re.search(r'signature:\s*(Signature::new\(.*\)),?\s*\}\s*$', inner_body.strip(), re.S)
                if msig and 'sig__' in hint:
                    ib = inner_body.strip()
                    inner_body = ' let sig__ = ' + msig.group(1) + ';\n' + hint + '\n ' + ib[:msig.start()] + 'signature: sig__ } '
                else:
                    inner_body = ' let r__ = ' + inner_body.strip() + ';\n' + hint + '\n r__ '
                gen.rules.append({'rule': 'R8 bind-tail', 'item': tyname0 + '::new', 'file': relfile, 'line': line})
            text = text[:mm.start()] + 'pub fn new() -> (r: %s)\n%s\n{' % (mm.group(1), body) + inner_body + text[c2:]
    tyname = split_top(inner)[0]
    for d in sec['dirs']:
        if d['name'] == 'type-invariant':
            text += '\nimpl %s { #[verifier::type_invariant] pub closed spec fn inv__(self) -> bool { %s } }\n' % (tyname, d['arg'])
        if d['name'] == 'spec-accessor':
            an, fld, fty = d['arg'].split()
            text += '\nimpl %s { pub closed spec fn %s(&self) -> %s { self.%s } }\n' % (tyname, an, fty, fld)
    gen.em.emit_text('// ---- R3 expansion of %s!(%s ..)  (%s:%d)' % (name, tyname, relfile, line), {'kind': 'gen'})
    cur_label, cur_props = None, None
    xserves = None
    for d in sec['dirs']:
        if d['name'] == 'serves':
            xserves = d['arg'].split()
    for l in text.split('\n'):
        mm = re.match(r'\s*//#\s*([\w.-]+)\s*(?:\[([^\]]*)\])?', l)
        if mm:
            cur_label = mm.group(1)
            cur_props = mm.group(2).split() if mm.group(2) else None
            gen.labels.append({'label': cur_label, 'props': cur_props or gen.serves, 'item': tyname + '::new'})
        gen.em.lines.append((l, {'kind': 'repo', 'file': 'jmespath/src/' + relfile, 'line': line, 'item': tyname + '::new', 'serves': xserves,
                                 'label': cur_label, 'label_props': cur_props}))
    gen.items.append({'item': '%s!(%s)' % (name, tyname), 'short': tyname + '::new', 'file': 'jmespath/src/' + relfile,
                      'lines': [line, src.count('\n', 0, c) + 1], 'sha256_16': hashlib.sha256(src[m.start():c].encode()).hexdigest()[:16],
                      'external': False, 'has_contract': any(d['name'] == 'contract-new' for d in sec['dirs']), 'serves': xserves})


def expand_fragments(secs, seen=(), included=None):
    """Fragments nest; a fragment is emitted once per unit (the first time it is named)."""
    out = []
    if included is None:
        included = set()
    for sec in secs:
        if sec['kind'] == 'fragment':
            name = sec['arg'].strip()
            if name in seen:
                raise UnitError('fragment cycle: ' + name)
            if name in included:
                continue
            included.add(name)
            p = os.path.join(VERIF, 'units', 'fragments', name + '.vuf')
            sub = parse_vu(p)
            for x in sub:
                x['vu_path'] = x.get('vu_path') or p
            out += expand_fragments(sub, seen + (name,), included)
        else:
            out.append(sec)
    return out


def generate(unit, variant=None):
    """Return (Generated, file_text).  variant: dict of substitutions applied to
    `=== text` sections only (e.g. {'RCVAR': 'Arc'}) — never to repo text."""
    vu_path = os.path.join(VERIF, 'units', unit + '.vu')
    secs = expand_fragments(parse_vu(vu_path))
    gen = Generated(unit)
    unit_vu_path = vu_path
    em = gen.em
    uses = []
    for sec in secs:
        k = sec['kind']
        vu_path = sec.get('vu_path') or unit_vu_path
        if k == 'meta':
            for _, l in sec['body']:
                if l.startswith('serves:'):
                    gen.serves = l.split(':', 1)[1].split()
        elif k == 'crate':
            gen.crate_lines += [l for _, l in sec['body'] if l.strip()]
        elif k == 'text':
            first = sec['body'][0][0] if sec['body'] else sec['line']
            cur_label, cur_props = None, None
            for no, l in sec['body']:
                t = l
                if variant:
                    for a, b in variant.items():
                        t = t.replace('{{%s}}' % a, b)
                m = re.match(r'\s*//#\s*([\w.-]+)\s*(?:\[([^\]]*)\])?', t)
                if m:
                    cur_label = m.group(1)
                    cur_props = m.group(2).split() if m.group(2) else None
                    gen.labels.append({'label': cur_label, 'props': cur_props or gen.serves, 'item': sec['arg'] or 'text'})
                em.lines.append((t, {'kind': 'spec', 'file': os.path.relpath(vu_path, VERIF), 'line': no,
                                     'item': None, 'label': cur_label, 'label_props': cur_props, 'serves': None}))
        elif k == 'include':
            p = os.path.join(VERIF, sec['arg'])
            cur_label, cur_props = None, None
            for no, l in enumerate(open(p).read().split('\n'), 1):
                t = l
                if variant:
                    for a, b in variant.items():
                        t = t.replace('{{%s}}' % a, b)
                m = re.match(r'\s*//#\s*([\w.-]+)\s*(?:\[([^\]]*)\])?', t)
                if m:
                    cur_label = m.group(1)
                    cur_props = m.group(2).split() if m.group(2) else None
                    gen.labels.append({'label': cur_label, 'props': cur_props or gen.serves, 'item': sec['arg']})
                em.lines.append((t, {'kind': 'spec', 'file': sec['arg'], 'line': no, 'item': None,
                                     'label': cur_label, 'label_props': cur_props, 'serves': None}))
        elif k == 'extract':
            process_extract(gen, sec, vu_path)
        elif k == 'expand':
            process_expand(gen, sec, vu_path)
        else:
            raise UnitError('%s:%d: unknown section %s' % (vu_path, sec['line'], k))
    head = list(gen.crate_lines) + ['#![allow(unused_imports, unused_variables, dead_code, unused_mut, unused_assignments, non_snake_case, unreachable_code, unused_parens, unused_braces)]',
                                    'use vstd::prelude::*;', 'verus! {']
    tail = ['// ---- vacuity canary: this assertion MUST fail',
            'proof fn canary__() { assert(false); }',
            '} // verus!', 'fn main() {}']
    lines = [(l, {'kind': 'gen'}) for l in head] + em.lines + [(l, {'kind': 'gen', 'item': 'canary__'}) for l in tail]
    gen.linemap = [o for _, o in lines]
    text = '\n'.join(l for l, _ in lines) + '\n'
    # item ranges: assign 'fn' context for spec/text lines by scanning fn/proof fn headers
    return gen, text


def scan_trusted(text):
    """Mechanical scan of the generated file for every unchecked assumption."""
    found = []
    for no, l in enumerate(text.split('\n'), 1):
        s = l.strip()
        if s.startswith('//'):
            continue
        for key in ('external_body', 'assume_specification', 'admit()', 'assume(', 'external_fn_specification',
                    'external_type_specification', '#[verifier::external]', 'axiom', 'exec_allows_no_decreases_clause',
                    'uninterp', 'verifier::truncate', 'no_unwind'):
            if key in s:
                found.append({'line': no, 'what': key, 'text': s[:160]})
    return found


if __name__ == '__main__':
    g, t = generate(sys.argv[1])
    out = sys.argv[2] if len(sys.argv) > 2 else '/dev/stdout'
    open(out, 'w').write(t)
    print(json.dumps({'rules': g.rules, 'items': g.items, 'trusted': g.trusted}, indent=1), file=sys.stderr)
