#!/usr/bin/env python3
"""Systematic small-edit sweep (a development aid, not a registered check).

For every site of a set of one-token mutation operators in jmespath/src/*.rs (test modules excluded):
  1. apply the single edit to a lane-private copy of the crate, `cargo test --workspace --no-fail-fast --offline`;
     a mutant that does not compile or that the pinned suite kills is dropped (the suite already notices it);
  2. a SURVIVOR is put in front of the units that extract from the edited file: some obligation fails -> caught,
     a unit is undecided -> undecided, everything verifies -> silent (an equivalent mutant, or a gap to triage).
Writes sweep/<file>.json.   usage: tools/mutation_sweep.py <file.rs> [--jobs=N] [--limit=N]
"""
import concurrent.futures as cf
import json, os, re, shutil, subprocess, sys, tempfile, threading
VERIF = os.path.dirname(os.path.dirname(os.path.abspath(__file__)))
sys.path.insert(0, os.path.join(VERIF, 'tools'))
import rustscan as R  # noqa: E402

OPS = [
    ('lt-le', r'(?<![<=>!-])<(?![<=])\s', '<= '), ('le-lt', r'<=\s', '< '),
    ('gt-ge', r'(?<![<=>!-])>(?![>=])\s', '>= '), ('ge-gt', r'>=\s', '> '),
    ('eq-ne', r'(?<![<>=!])==(?!=)', '!='), ('ne-eq', r'!=', '=='),
    ('and-or', r'&&', '||'), ('or-and', r'\|\|', '&&'),
    ('plus-minus', r'(?<![+\w])\s\+\s(?!=)', ' - '), ('minus-plus', r'\s-\s(?![=>])', ' + '),
    ('pluseq-minuseq', r'\+=', '-='), ('minuseq-pluseq', r'-=', '+='),
    ('zero-one', r'(?<![\w.])0(?![\w.])', '1'), ('one-zero', r'(?<![\w.])1(?![\w.])', '0'),
    ('true-false', r'\btrue\b', 'false'), ('false-true', r'\bfalse\b', 'true'),
    ('drop-not', r'(?<![=!<>\w])!(?=[\w(])', ''),
    ('lhs-rhs', r'\blhs\b', 'rhs'), ('rhs-lhs', r'\brhs\b', 'lhs'),
    ('some-none', r'\bis_some\(\)', 'is_none()'), ('none-some', r'\bis_none\(\)', 'is_some()'),
    ('null-truthy', r'\bis_null\(\)', 'is_truthy()'),
    ('start-stop', r'\bstart\b', 'stop'), ('stop-start', r'\bstop\b', 'start'),
    ('min-max', r'\bmin\(', 'max('), ('max-min', r'\bmax\(', 'min('),
    ('lbp-const', r'=> (\d+),', None),      # binding-power constants: +1
]
UNITS = {
    'interpreter.rs': ['interp'], 'parser.rs': ['parser'], 'lexer.rs': ['lexer', 'lbp'],
    'functions.rs': ['builtins', 'validate', 'sigtable'], 'runtime.rs': ['runtime'],
    'variable.rs': ['slice', 'interp', 'eq', 'serde_ser', 'serde_de', 'visitor', 'tryfrom', 'validate'],
    'lib.rs': ['api', 'compile', 'tojmespath'], 'errors.rs': ['errnew', 'errdisplay'],
}
_lanes = {}
_lock = threading.Lock()


def lane_dir():
    t = threading.get_ident()
    with _lock:
        if t not in _lanes:
            d = tempfile.mkdtemp(prefix='sweep_lane_')
            subprocess.run(['rsync', '-a', '--exclude', 'target', '--exclude', '.git', '/repo/', d + '/repo/'], check=True)
            _lanes[t] = d
        return _lanes[t]


def sites(fname):
    src = open('/repo/jmespath/src/' + fname).read()
    cut = src.find('#[cfg(test)]')
    body = src if cut < 0 else src[:cut]
    mask = R.mask_source(body)
    out = []
    for name, pat, rep in OPS:
        for m in re.finditer(pat, mask):
            if rep is None:
                new = '=> %d,' % (int(m.group(1)) + 1)
            else:
                new = rep
            line = body.count('\n', 0, m.start()) + 1
            ltxt = body.split('\n')[line - 1]
            if ltxt.strip().startswith(('#[', 'use ', '//')) or 'assert' in ltxt:
                continue
            out.append({'op': name, 'pos': m.start(), 'end': m.end(), 'new': new, 'line': line, 'text': ltxt.strip()[:120]})
    return src, out


def run_mutant(fname, src, s):
    d = lane_dir()
    p = os.path.join(d, 'repo/jmespath/src', fname)
    mutated = src[:s['pos']] + s['new'] + src[s['end']:]
    open(p, 'w').write(mutated)
    try:
        env = dict(os.environ, CARGO_NET_OFFLINE='true')
        q = subprocess.run(['cargo', 'test', '--workspace', '--no-fail-fast', '--offline', '-q'], cwd=os.path.join(d, 'repo/jmespath'), env=env,
                           capture_output=True, text=True, timeout=600)
        txt = q.stdout + q.stderr
        if 'error[' in txt or 'error:' in txt and 'could not compile' in txt:
            return dict(s, result='no-compile')
        if q.returncode != 0 or 'FAILED' in txt or 'panicked' in txt:
            return dict(s, result='killed-by-suite')
        # survivor: verify
        import runner
        import extract as X
        fails, und = [], []
        old = os.environ.get('VERIF_REPO_SRC')
        for u in UNITS.get(fname, []):
            envp = dict(os.environ, VERIF_REPO_SRC=os.path.join(d, 'repo/jmespath/src'))
            r = subprocess.run([sys.executable, os.path.join(VERIF, 'tools/runner.py'), u], env=envp, capture_output=True, text=True, timeout=1200)
            out = r.stdout
            known = ('sum-error-is-runtime-at-call', 'avg-error-is-runtime-at-call')
            fl = [l.split(' ')[1] for l in out.split('\n') if l.startswith('FAIL') and not any(k in l for k in known)]
            fails += fl
            if 'status undecided' in out:
                und.append(u + ': ' + out.split('status undecided', 1)[1].split('\n')[0][:140])
        res = 'caught' if fails else ('undecided' if und else 'SILENT')
        return dict(s, result=res, failing=fails[:3], undecided=und[:2])
    except subprocess.TimeoutExpired:
        return dict(s, result='timeout')
    finally:
        open(p, 'w').write(src)


def main():
    fname = sys.argv[1]
    jobs = 6
    limit = None
    for a in sys.argv[2:]:
        if a.startswith('--jobs='):
            jobs = int(a[7:])
        if a.startswith('--limit='):
            limit = int(a[8:])
    src, ss = sites(fname)
    if limit:
        ss = ss[:limit]
    print('%s: %d mutation sites' % (fname, len(ss)), flush=True)
    res = []
    with cf.ThreadPoolExecutor(max_workers=jobs) as pool:
        for r in pool.map(lambda s: run_mutant(fname, src, s), ss):
            res.append(r)
            if r['result'] not in ('killed-by-suite', 'no-compile'):
                print('%-10s %-16s L%-4d %s  %s' % (r['result'], r['op'], r['line'], r['text'][:80], (r.get('failing') or r.get('undecided') or [''])[0][:70]), flush=True)
    os.makedirs(os.path.join(VERIF, 'sweep'), exist_ok=True)
    json.dump(res, open(os.path.join(VERIF, 'sweep', fname + '.json'), 'w'), indent=1)
    from collections import Counter
    print(Counter(r['result'] for r in res))
    for d in _lanes.values():
        shutil.rmtree(d, ignore_errors=True)


if __name__ == '__main__':
    main()
