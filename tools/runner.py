"""Run one Verus unit: extract -> verus -> diagnostics -> named obligations."""
import json
import os
import re
import shutil
import subprocess
import sys
import tempfile
import time

sys.path.insert(0, os.path.dirname(__file__))
import extract as X  # noqa: E402
import rustscan as R  # noqa: E402

VERIF = X.VERIF
VERUS = shutil.which('verus') or '/usr/local/bin/verus'

# message -> obligation kind.  Anything not listed here that is an error is NOT a verdict (exit 2).
VERIF_CLASSES = [
    (r'^postcondition not satisfied', 'ensures'),
    (r'^unable to prove post-condition of closure', 'ensures'),
    (r'^unable to prove pre-condition of closure', 'requires'),
    (r'^precondition not met: index in bounds', 'bounds'),       # slice / array indexing
    (r'^precondition not met', 'requires'),
    (r'^precondition not satisfied', 'requires'),
    (r'^invariant not satisfied', 'invariant'),
    (r'^loop invariant not satisfied', 'invariant'),
    (r'^loop ensures not satisfied', 'invariant'),
    (r'^assertion failed', 'assert'),
    (r'^unreachable', 'unreachable'),
    (r'^possible arithmetic underflow/overflow', 'overflow'),
    (r'^possible division by zero', 'overflow'),
    (r'^possible bit shift underflow/overflow', 'overflow'),
    (r'^decreases not satisfied', 'decreases'),
    (r'^could not prove termination', 'decreases'),
    (r'^recommendation not met', None),          # ignored (spec-level recommends)
    (r'^cannot show .* is exhaustive', 'unreachable'),
    (r'^possible truncation', 'overflow'),
    (r'^constructed value may fail to meet its declared type invariant', 'type-invariant'),
    (r'^cannot prove .*type invariant', 'type-invariant'),
]
UNDECIDED_PATTERNS = [r'[Rr]esource limit', r'rlimit', r'timed? ?out', r'not supported', r'does not (yet )?support',
                      r'unsupported']
AUTO_C05 = ('overflow', 'bounds', 'unreachable', 'decreases')


def slug(s, n=48):
    s = R.norm_ws(s)
    s = re.sub(r'[^A-Za-z0-9_+\-*/<>=!.\[\]()&|:]+', '_', s)
    return s[:n].strip('_') or 'x'


def unexpand(sp, fname):
    """A span inside a macro expansion (matches!, vec!, ..) is reported in the macro's file; follow the expansion chain
    back to the invocation in the generated unit so the failure is attributed to the function that contains it."""
    cur = sp
    for _ in range(8):
        if os.path.basename(cur.get('file_name', '')) == fname:
            break
        ex = cur.get('expansion')
        if not ex or not ex.get('span'):
            return sp
        cur = ex['span']
    if cur is sp or os.path.basename(cur.get('file_name', '')) != fname:
        return sp
    out = dict(cur)
    out['label'] = sp.get('label')
    out['is_primary'] = sp.get('is_primary')
    return out


VSTD_STRONG = set("""len push pop insert remove clear truncate extend_from_slice swap get first last is_empty contains_key
is_some is_none unwrap unwrap_or expect is_ok is_err ok err as_ref as_mut take clone new with_capacity iter next
unwrap_or_else and_then map ok_or ok_or_else checked_add checked_sub checked_mul wrapping_add wrapping_sub
saturating_add saturating_sub min max eq ne lt le gt ge cmp partial_cmp into_iter Some None Ok Err Box Rc Arc Vec
push_str push_back pop_front front back view spec_index index deref borrow is_whitespace""".split())


# constructors vstd specifies exactly (checked in this sandbox: the result's view is the argument / empty)
STRONG_PATHS = set(['Rcvar::new', 'Rc::new', 'Arc::new', 'Box::new', 'Vec::new', 'Vec::with_capacity', 'String::new'])


def call_names(gen, text):
    """names of the functions / methods / macros called from /repo lines of items under verification (after rewriting)"""
    ext_items = set(it['short'] for it in gen.items if it.get('external'))
    names = set()
    lines = text.split('\n')
    for i, l in enumerate(lines):
        o = gen.linemap[i] if i < len(gen.linemap) else {}
        if o.get('kind') not in ('repo', 'gen') or not o.get('item') or o.get('item') in ext_items or '(spec twin)' in (o.get('item') or ''):
            continue
        m = R.mask_source(l)
        for mm in re.finditer(r'\.\s*([A-Za-z_]\w*)\s*(?:::<[^>]*>)?\s*\(', m):
            names.add(mm.group(1))
        for mm in re.finditer(r'(?<![\w.])((?:[A-Za-z_]\w*::)*[A-Za-z_]\w*)\s*(?:::<[^>]*>)?\s*\(', m):
            n = mm.group(1)
            if n not in ('if', 'while', 'match', 'for', 'return', 'fn', 'loop', 'in', 'as', 'let', 'else', 'move', 'ref', 'mut', 'pub', 'impl', 'where', 'Self', 'self'):
                names.add(n)            # path calls keep their path: `String::from` is not `Number::from`
        for mm in re.finditer(r'\b([A-Za-z_]\w*)!\s*[\(\[{]', m):
            names.add(mm.group(1) + '!')
    return names


def allowed_call_names(gen, text):
    """functions the generated file itself defines (items, idioms, stubs with contracts) and the std contract library"""
    allowed = set(VSTD_STRONG)
    for mm in re.finditer(r'\bfn\s+([A-Za-z_]\w*)', text):
        allowed.add(mm.group(1))
    for mm in re.finditer(r'assume_specification(?:<[^\[]*>)?\[\s*([^\]]+)\]', text):
        allowed.add(re.sub(r'<.*?>', '', mm.group(1)).split('::')[-1].strip())
    for mm in re.finditer(r'\b(?:struct|enum)\s+([A-Za-z_]\w*)', text):
        allowed.add(mm.group(1))
    for mm in re.finditer(r'^\s*([A-Z]\w*)\s*(?:\(|\{|,|=>)', text, re.M):     # enum variants used as constructors
        allowed.add(mm.group(1))
    return allowed


def new_unknown_calls(unit, gen, text):
    """Calls in extracted /repo code that were not there on the pinned tree (config/callnames.json) and have no contract
    this framework knows to be strong.  vstd accepts some std functions with a weak or empty specification (String::from,
    to_string, into, == on references ..); a proof that runs through such a call fails for a reason that says nothing
    about the code, so the unit is undecided instead."""
    try:
        base = json.load(open(os.path.join(VERIF, 'config', 'callnames.json'))).get(unit)
    except Exception:
        base = None
    if base is None:
        return []
    now = call_names(gen, text)
    allowed = allowed_call_names(gen, text)
    types_here = set(re.findall(r'\b(?:struct|enum|trait)\s+([A-Za-z_]\w*)', text))
    out = []
    for n in sorted(now - set(base)):
        if n in STRONG_PATHS:
            continue
        if '::' in n:
            head, last = n.split('::')[0], n.split('::')[-1]
            if head in types_here or head in ('Self', 'self', 'crate', 'super') or last in ('Some', 'None', 'Ok', 'Err'):
                continue            # a type this file declares: an unknown method is a compile error, a known one has its contract
        elif n in allowed:
            continue
        out.append(n)
    # `==` / `!=` with a reference operand: accepted by Verus for some types without any meaning attached
    ext_items = set(it['short'] for it in gen.items if it.get('external'))
    lines = text.split('\n')
    for i, l in enumerate(lines):
        o = gen.linemap[i] if i < len(gen.linemap) else {}
        if o.get('kind') not in ('repo', 'gen') or not o.get('item') or o.get('item') in ext_items or '(spec twin)' in (o.get('item') or ''):
            continue
        m = R.mask_source(l)
        if re.search(r'(?<![=!<>&|])(==|!=)\s*&(?!&)', m) or re.search(r'(?<![&\w])&(?!&)[\w:]+(?:\([^()]*\))?\s*(==|!=)(?!=)', m):
            out.append('reference comparison: ' + l.strip()[:60])
    return out


def unannotated_closures(gen, text):
    """closures WITH parameters, in lines that come from /repo items under verification, that carry no annotation"""
    ext_items = set(it['short'] for it in gen.items if it.get('external'))
    out = []
    lines = text.split('\n')
    for i, l in enumerate(lines):
        o = gen.linemap[i] if i < len(gen.linemap) else {}
        if o.get('kind') != 'repo' or o.get('item') in ext_items or '(spec twin)' in (o.get('item') or ''):
            continue
        m = R.mask_source(l)
        for mm in re.finditer(r'(?:(?<=[(,={;])|(?<=\bmove)|(?<=\breturn))\s*\|([^|]+)\|', m):
            if re.match(r'\s*->', m[mm.end():]):
                continue
            before = m[:mm.start()].rstrip()
            if before.endswith(('==', '>=', '<=', '!=', '=>', 'Ghost(')):       # comparisons / match arms / spec closures
                continue
            out.append('%s: %s' % (o.get('item') or '?', l.strip()[:80]))
    return out


def enclosing_fns(text):
    """line number (1-based) -> name of the enclosing fn in the generated file."""
    mask = R.mask_source(text)
    res = {}
    for m in re.finditer(r'\bfn\s+(\w+)', mask):
        try:
            o = R.find_body_open(mask, m.start())
        except R.LostAnchor:
            continue
        if mask[o] != '{':
            continue
        try:
            c = R.match_close(mask, o)
        except R.LostAnchor:
            continue
        a = text.count('\n', 0, m.start()) + 1
        b = text.count('\n', 0, c) + 1
        for ln in range(a, b + 1):
            res[ln] = m.group(1)   # inner fns overwrite outer ones (closures are not fns)
    return res


class UnitResult:
    def __init__(self, unit, variant):
        self.unit = unit
        self.variant = variant
        self.status = 'ok'        # ok | undecided
        self.undecided_reason = None
        self.failures = []        # dicts
        self.verified = 0
        self.errors = 0
        self.functions = []       # per-function breakdown from verus
        self.wall_s = 0.0
        self.smt_ms = 0
        self.gen = None
        self.gen_text = ''
        self.trusted_scan = []
        self.canary_failed = False
        self.cmd = ''
        self.raw = ''

    def to_json(self):
        return {
            'unit': self.unit, 'variant': self.variant, 'status': self.status,
            'undecided_reason': self.undecided_reason,
            'verus_verified': self.verified, 'verus_errors': self.errors,
            'canary_failed_as_required': self.canary_failed,
            'failures': self.failures, 'wall_s': round(self.wall_s, 2), 'smt_ms': self.smt_ms,
            'functions': self.functions,
            'items': self.gen.items if self.gen else [],
            'rewrite_rules_applied': self.gen.rules if self.gen else [],
            'trusted_items': self.gen.trusted if self.gen else [],
            'trusted_scan': self.trusted_scan,
            'labels': self.gen.labels if self.gen else [],
            'cmd': self.cmd,
        }


def run_unit(unit, variant=None, scratch=None, rlimit=None, keep=False, extra_args=(), second_opinion=True):
    """Verify one unit.  A failed obligation is only kept if it also fails with Z3's nonlinear arithmetic enabled
    (`smt.arith.nl=true`, off by default in Verus): an equivalent rewrite such as `-x` -> `-1 * x` is outside the
    default linear fragment, and a proof lost to that says nothing about the code.  The second run can only
    discharge more, never less (soundness is unaffected); if it is itself undecided the first verdict stands."""
    res = _run_unit(unit, variant, scratch, rlimit, keep, extra_args)
    if second_opinion and res.status == 'ok' and res.failures and 'smt.arith.nl=true' not in ' '.join(extra_args):
        res2 = _run_unit(unit, variant, None, rlimit, False, tuple(extra_args) + ('--smt-option', 'smt.arith.nl=true'))
        if res2.status == 'ok':
            still = set(f['obligation'] for f in res2.failures)
            dropped = [f['obligation'] for f in res.failures if f['obligation'] not in still]
            if dropped:
                res.failures = [f for f in res.failures if f['obligation'] in still]
                res.errors = max(0, res.errors - len(dropped))
                res.second_opinion = {'discharged_with_nonlinear_arithmetic': dropped}
    return res


def _run_unit(unit, variant=None, scratch=None, rlimit=None, keep=False, extra_args=()):
    variant = variant or {'RC': 'Rc'}
    res = UnitResult(unit, variant)
    t0 = time.time()
    try:
        gen, text = X.generate(unit, variant)
    except X.UnitError as e:
        res.status = 'undecided'
        res.undecided_reason = 'extraction: %s' % e
        return res
    except Exception as e:  # scanner bug etc.: never an alarm
        res.status = 'undecided'
        res.undecided_reason = 'extraction crashed: %r' % e
        return res
    res.gen = gen
    res.gen_text = text
    res.trusted_scan = X.scan_trusted(text)
    nk = new_unknown_calls(unit, gen, text)
    if nk:
        res.status = 'undecided'
        res.undecided_reason = 'extracted code calls function(s) absent from the pinned tree and without a contract known to be strong: ' + ', '.join(nk[:6])
        return res
    uc = unannotated_closures(gen, text)
    if uc:
        # an exec closure with parameters and no `-> (r: T) ensures ..` annotation is opaque to Verus: whatever is computed
        # through it is unconstrained, so a proof that needs it fails for a reason that says nothing about the code
        res.status = 'undecided'
        res.undecided_reason = 'closure without a contract annotation in extracted code (its result would be unconstrained): ' + '; '.join(uc[:3])
        return res
    own = scratch is None
    d = scratch or tempfile.mkdtemp(prefix='vf_%s_' % unit)
    fname = '%s_%s.rs' % (unit, variant.get('RC', 'x').lower())
    path = os.path.join(d, fname)
    with open(path, 'w') as f:
        f.write(text)
    cmd = [VERUS, fname, '--triggers-mode', 'silent', '--multiple-errors', '30', '--output-json', '--time',
           '--error-format=json']
    cmd += ['--rlimit', str(rlimit or int(os.environ.get('VERIF_RLIMIT', '30')))]
    cmd += list(extra_args)
    res.cmd = ' '.join(cmd)
    try:
        p = subprocess.run(cmd, cwd=d, capture_output=True, text=True, timeout=int(os.environ.get('VERIF_VERUS_TIMEOUT', '900')))
    except subprocess.TimeoutExpired:
        res.status = 'undecided'
        res.undecided_reason = 'verus timeout'
        return res
    finally:
        pass
    res.wall_s = time.time() - t0
    res.raw = p.stderr
    summary = None
    try:
        summary = json.loads(p.stdout)
    except Exception:
        pass
    diags = []
    for line in p.stderr.split('\n'):
        line = line.strip()
        if line.startswith('{'):
            try:
                diags.append(json.loads(line))
            except Exception:
                pass
    encl = enclosing_fns(text)
    linemap = gen.linemap
    glines = text.split('\n')

    def origin(ln):
        if 1 <= ln <= len(linemap):
            return linemap[ln - 1]
        return {'kind': 'gen'}

    for dg in diags:
        if dg.get('level') != 'error':
            continue
        msg = dg.get('message', '')
        if msg.startswith('aborting due to'):
            continue
        kind = 'UNCLASSIFIED'
        for pat, k in VERIF_CLASSES:
            if re.search(pat, msg):
                kind = k
                break
        if kind is None:
            continue
        if kind == 'UNCLASSIFIED':
            res.status = 'undecided'
            why = 'verus/rustc error that is not a verification verdict: %s' % msg[:300]
            for sp in dg.get('spans', []):
                why += ' @ gen line %d' % sp.get('line_start', 0)
                break
            res.undecided_reason = why
            continue
        spans = [unexpand(sp, fname) for sp in dg.get('spans', [])]
        site = None
        clause = None
        for sp in spans:
            lab = (sp.get('label') or '')
            if 'failed' in lab:
                clause = sp
            elif site is None or sp.get('is_primary'):
                if 'failed' not in lab:
                    site = sp
        if site is None:
            site = clause or (spans[0] if spans else None)
        if site is None:
            continue
        in_unit = os.path.basename(site.get('file_name', '')) == fname
        sline = site.get('line_start', 0) if in_unit else 0
        so = origin(sline)
        fn_name = so.get('item') or encl.get(sline) or '?'
        if so.get('kind') == 'spec' and not so.get('directive'):
            fn_name = encl.get(sline) or fn_name
        site_text = ' '.join(t.get('text', '')[t.get('highlight_start', 1) - 1:t.get('highlight_end', 1) - 1] for t in site.get('text', [])[:2])
        label = None
        props = None
        extra_props = []
        clause_text = None
        if clause is not None:
            c_in_unit = os.path.basename(clause.get('file_name', '')) == fname
            clause_text = R.norm_ws(' '.join(t.get('text', '') for t in clause.get('text', [])[:6]))[:400]
            if c_in_unit:
                co = origin(clause.get('line_start', 0))
                if co.get('label'):
                    label = co['label']
                    props = co.get('label_props')
                elif kind == 'requires':
                    # an unlabelled precondition of a callee in this unit: the failure at the call site also concerns
                    # the properties the callee's contract serves
                    callee_props = co.get('serves')
                    if not callee_props and co.get('item'):
                        for it in gen.items:
                            if it['short'] == co.get('item') and it.get('serves'):
                                callee_props = it['serves']
                    extra_props = list(callee_props or [])
            else:
                # a vstd precondition
                if kind == 'requires':
                    cfile = clause.get('file_name', '')
                    if re.search(r'len\(\)|\.len\b|< *self', clause_text) and re.search(r'\[', site_text):
                        kind = 'bounds'
                    elif re.search(r'std_specs/(vec|slice|vecdeque)\.rs|/(slice|array)\.rs', cfile) and re.search(r'\w\s*\[[^\]]*\]\s*$', site_text.strip()):
                        kind = 'bounds'              # the index precondition of Vec / slice / VecDeque
                    elif re.search(r'std_specs/(option|result)\.rs', cfile) and re.search(r'\.(unwrap|expect)\s*\(', site_text):
                        kind = 'unreachable'         # unwrap()/expect() on a value not proved Some/Ok: a reachable panic
        if kind == 'requires' and ('unreachable!' in site_text or 'unreached' in (clause_text or '')):
            kind = 'unreachable'
        # the overflow preconditions of integer methods in the std contract library (abs, neg, rem_euclid, pow, ..)
        if kind == 'requires' and clause_text is not None and re.search(r'\.(abs|rem_euclid|pow|div_euclid|neg|wrapping_\w+|isqrt)\s*\([^()]*\)\s*$', site_text.strip()) \
                and re.search(r'::MIN|::MAX|!= 0', clause_text or ''):
            kind = 'overflow'
        if kind == 'requires' and clause_text and 'false' == clause_text.strip():
            kind = 'unreachable'
        if kind in ('invariant', 'assert', 'decreases') and so.get('kind') == 'spec' and so.get('label') and not label:
            label = so['label']
            props = so.get('label_props')
        if fn_name == 'canary__':
            res.canary_failed = True
            continue
        if not label:
            label = slug(site_text)
        if props is None:
            props = so.get('serves') or None
        if props is None:
            # item-level serves
            for it in gen.items:
                if it['short'] == fn_name and it.get('serves'):
                    props = it['serves']
            if props is None:
                props = list(gen.serves)
        props = list(props)
        for ep in extra_props:
            if ep not in props:
                props.append(ep)
        if kind in AUTO_C05 and 'C05' not in props:
            props.append('C05')
        ob = '%s/%s#%s:%s' % (unit, fn_name, kind, label)
        repo_loc = None
        if so.get('kind') == 'repo':
            repo_loc = '%s:%d' % (so['file'], so['line'])
        else:
            for it in gen.items:
                if it['short'] == fn_name:
                    repo_loc = '%s:%d-%d' % (it['file'], it['lines'][0], it['lines'][1])
        res.failures.append({
            'obligation': ob, 'kind': kind, 'label': label, 'properties': props, 'function': fn_name,
            'message': msg, 'site': {'gen_line': sline, 'text': R.norm_ws(site_text)[:200], 'repo': repo_loc},
            'clause': clause_text, 'rendered': (dg.get('rendered') or '')[:3000], 'variant': variant,
        })
    if summary:
        vr = summary.get('verification-results', {})
        res.verified = vr.get('verified', 0)
        res.errors = vr.get('errors', 0)
        try:
            for mod in summary['times-ms']['smt']['smt-run-module-times']:
                for fb in mod.get('function-breakdown', []):
                    res.functions.append({'function': fb['function'].split('::', 1)[-1], 'mode': fb.get('mode:'),
                                          'ms': fb.get('time'), 'rlimit': fb.get('rlimit'), 'success': fb.get('success')})
            res.smt_ms = summary['times-ms']['smt']['total']
        except Exception:
            pass
        if vr.get('encountered-vir-error') and res.status == 'ok':
            res.status = 'undecided'
            res.undecided_reason = 'verus reported a VIR error (unsupported construct)'
    else:
        if res.status == 'ok':
            res.status = 'undecided'
            res.undecided_reason = 'no verus summary (compile error?): ' + p.stderr[-600:]
    if res.status == 'ok':
        for pat in UNDECIDED_PATTERNS:
            for dg in diags:
                if dg.get('level') == 'error' and re.search(pat, dg.get('message', '')):
                    res.status = 'undecided'
                    res.undecided_reason = 'verus: ' + dg.get('message', '')[:200]
    if res.status == 'ok' and not res.canary_failed:
        res.status = 'undecided'
        res.undecided_reason = 'vacuity guard: canary `assert(false)` was NOT reported as failing'
    # the canary counts as one expected error
    if res.canary_failed:
        res.errors = max(0, res.errors - 1)
    if own and not keep:
        shutil.rmtree(d, ignore_errors=True)
    elif keep:
        res.kept = path
    return res


if __name__ == '__main__':
    import argparse
    ap = argparse.ArgumentParser()
    ap.add_argument('unit')
    ap.add_argument('--rc', default='Rc')
    ap.add_argument('--keep', action='store_true')
    ap.add_argument('--raw', action='store_true')
    ap.add_argument('--vf', help='verify only this function (debugging aid)')
    a = ap.parse_args()
    r = run_unit(a.unit, {'RC': a.rc}, keep=a.keep, extra_args=(['--verify-root', '--verify-function', a.vf] if a.vf else ()))
    print('status', r.status, r.undecided_reason or '')
    print('verified', r.verified, 'errors(excl. canary)', r.errors, 'wall %.1fs' % r.wall_s)
    for f in r.failures:
        print('FAIL', f['obligation'], f['properties'], '|', f['message'], '|', f['site'])
    if a.keep:
        print('kept', getattr(r, 'kept', None))
    if a.raw or r.status != 'ok':
        for line in r.raw.split('\n'):
            if line.startswith('{'):
                try:
                    d = json.loads(line)
                    if d.get('level') == 'error':
                        print(d.get('rendered'))
                except Exception:
                    pass
            elif line.strip():
                print(line)
