#!/usr/bin/env python3
"""Write the prompts for a round of independent seeded-change sub-agents.

usage: tools/gen_seed_prompts.py <round dir, e.g. /tmp/wt3> [--minimal]

Each prompt contains only the text of one property (from properties.jsonl), the path of that agent's own scratch
worktree <round dir>/<id>, the delivery directory <round dir>/out/<id>/{a,b}, and one-line summaries of the changes
earlier rounds already produced for the property (so that the new ones differ).  Nothing from /verif's machinery.
"""
import json, os, sys
VERIF = os.path.dirname(os.path.dirname(os.path.abspath(__file__)))
root = sys.argv[1].rstrip('/')
props = {json.loads(l)['id']: json.loads(l) for l in open(os.path.join(VERIF, 'properties.jsonl'))}
TMPL = '''You are helping test a verification effort by producing *seeded defects* (mutations) of a Rust library. Work ONLY inside the git worktree at {root}/{pid} (a checkout of the jmespath.rs repository: a Rust implementation of the JMESPath JSON query language; the library crate is in {root}/{pid}/jmespath, its CLI in jmespath-cli). Do not read or write anything under /repo or /verif. The sandbox has no network; use `--offline` with cargo.

The library is supposed to satisfy this property:

  Title: {title}
  Statement: {statement}
  Quantified over: {quant}

Your task: produce TWO independent changes (call them a and b) to the library source under {root}/{pid}/jmespath/src, in different functions or code sites, each of which
  1. breaks the property above (there is some input / sequence of calls for which the stated behaviour no longer holds),
  2. still compiles, and
  3. still passes the complete existing test suite: `cd {root}/{pid}/jmespath && cargo test --workspace --no-fail-fast --offline` must report 0 failures (927 unit/compliance tests + doc tests).
Prefer changes that need something specific to manifest: an unusual input, a boundary value, a particular combination of types, a multi-step sequence, or two cooperating sites that each look fine alone. Do NOT produce changes that ordinary use would expose at once, do not touch tests, build scripts, Cargo.toml or the CLI, and keep each change small and realistic (the kind of slip or "optimisation" a maintainer could plausibly commit), e.g. an off-by-one, a swapped operand, a wrong comparison, a dropped case, a changed constant, a reordered check.

For each change X in {{a, b}}, deliver in {root}/out/{pid}/X/ :
  - patch.diff : output of `git -C {root}/{pid} diff` containing ONLY that change (relative to the unmodified HEAD), so that it applies with `git apply` at the repository root;
  - demo.rs : a self-contained Rust integration test file (to be copied to jmespath/tests/seeded_demo.rs; use `use jmespath::...;` and `#[test]` functions) that FAILS with the change applied and PASSES on the unmodified code;
  - notes.md : 5-10 lines: what was changed, which inputs expose it, why the existing tests do not.
Procedure for each change: start from a clean tree (`git -C {root}/{pid} checkout -- . && git -C {root}/{pid} clean -fdq -e target`), make the change, run the full test suite, write the demo into jmespath/tests/seeded_demo.rs and run it (`cargo test --offline --test seeded_demo`) to see it fail, save the patch (excluding the demo file), then revert the source change, run the demo again to see it pass, and remove jmespath/tests/seeded_demo.rs. Verify all of this yourself; do not deliver a change whose demo you have not seen fail-with / pass-without. At the end leave the worktree clean (no modified tracked files, no seeded_demo.rs). Reply with a short summary of the two changes.'''
prev = {}
sd = os.path.join(VERIF, 'seeded')
for d in sorted(os.listdir(sd)):
    mp = os.path.join(sd, d, 'meta.json')
    np_ = os.path.join(sd, d, 'notes.md')
    if os.path.exists(mp) and os.path.exists(np_) and d[0] == 'C':
        m = json.load(open(mp))
        notes = open(np_).read().strip().split('\n')
        prev.setdefault(m['breaks_property'], []).append(' '.join(notes[:3])[:300])
os.makedirs(os.path.join(root, 'out'), exist_ok=True)
for pid in sorted(props):
    if pid == 'C18':
        continue
    p = props[pid]
    t = TMPL.format(root=root, pid=pid, title=p['title'], statement=p['statement'], quant=p['quantifier']['text'])
    if prev.get(pid):
        t += ("\n\nAdditional guidance for this round: other people have already produced the following changes for this property; "
              "produce DIFFERENT ones (different code sites and different ideas):\n- " + "\n- ".join(prev[pid]) + "\n")
    t += ("Keep each change minimal (ideally a one- or two-line edit of existing code: an off-by-one, a swapped operand or argument, "
          "a wrong constant, a dropped or reordered condition, a wrong variant or field), rather than rewriting a function.\n")
    if pid == 'C16':
        t += "Note: build and test your demonstration with `--features sync`; the change must also pass the default-feature suite.\n"
    if pid == 'C17':
        t += "Note: `cargo +nightly test --offline --features specialized` works offline for the specialized feature; the change must also pass the default-feature suite.\n"
    for x in 'ab':
        os.makedirs(os.path.join(root, 'out', pid, x), exist_ok=True)
    open(os.path.join(root, 'out', 'prompt_%s.txt' % pid), 'w').write(t)
print('prompts written to', os.path.join(root, 'out'))
