"""Kani path (DESIGN 3.2): rsync the working tree of the crate to scratch, inject harness modules as
children of the module whose private items they need, run `cargo kani`, parse per-check results.

Loop-free harnesses over full-domain kani::any() are `complete`; harnesses with #[kani::unwind] are
`bounded(n)` and are never counted as proved."""
import json
import os
import re
import shutil
import struct
import subprocess
import tempfile
import time

VERIF = os.path.dirname(os.path.dirname(os.path.abspath(__file__)))
REPO = os.environ.get('VERIF_REPO', '/repo')
CRATE = os.path.join(REPO, 'jmespath')
if os.environ.get('VERIF_REPO_SRC'):
    CRATE = os.path.dirname(os.environ['VERIF_REPO_SRC'].rstrip('/'))

COUNTED_CLASSES = ('assertion', 'arithmetic_overflow', 'unwind', 'pointer', 'pointer_dereference', 'bounds',
                   'array_bounds', 'division-by-zero', 'cover', 'unreachable', 'overflow', 'unwinding assertion', 'safety_check')
IGNORED_CLASSES = ('NaN', 'float', 'sanity_check', 'unsupported_construct')


class KaniResult:
    def __init__(self):
        self.status = 'ok'
        self.undecided_reason = None
        self.harnesses = []
        self.cmd = ''
        self.diff_note = ''

    def to_json(self):
        return {'status': self.status, 'undecided_reason': self.undecided_reason, 'harnesses': self.harnesses,
                'cmd': self.cmd, 'injected': self.diff_note}


def load_cfg():
    return json.load(open(os.path.join(VERIF, 'config', 'kani.json')))


def decode(vals, types):
    out = []
    for v, t in zip(vals, types):
        b = bytes(v)
        try:
            if t == 'f64':
                x = struct.unpack('<d', b)[0]
                out.append({'type': 'f64', 'value': repr(x), 'bits': '0x%016x' % struct.unpack('<Q', b)[0]})
            elif t == 'char':
                cp = struct.unpack('<I', b)[0]
                out.append({'type': 'char', 'value': 'U+%04X' % cp})
            elif t == 'usize':
                out.append({'type': 'usize', 'value': struct.unpack('<Q', b)[0]})
            elif t == 'i32':
                out.append({'type': 'i32', 'value': struct.unpack('<i', b)[0]})
            else:
                out.append({'type': t, 'bytes': list(b)})
        except Exception:
            out.append({'type': t, 'bytes': list(b)})
    return out


def parse_output(text, names):
    """-> {harness: {'checks': [(class, status, desc, loc)], 'verdict': str, 'playback': [[bytes]...], 'time': float}}"""
    res = {}
    cur = None
    pb = None
    for line in text.split('\n'):
        m = re.match(r'Checking harness ([\w:]+)', line)
        if m:
            cur = m.group(1).split('::')[-1]
            res[cur] = {'checks': [], 'verdict': None, 'playback': [], 'time': None, 'stubs': []}
            continue
        m = re.match(r'Concrete playback unit test for `([\w:]+)`', line)
        if m:
            pb = m.group(1).split('::')[-1]
            res.setdefault(pb, {'checks': [], 'verdict': None, 'playback': [], 'time': None, 'stubs': []})
            continue
        if pb is not None:
            m = re.match(r'\s*vec!\[([0-9, ]*)\],?', line)
            if m:
                res[pb]['playback'].append([int(x) for x in m.group(1).split(',') if x.strip()])
            if line.startswith('}'):
                pb = None
            continue
        if cur is None:
            continue
        m = re.match(r'Check \d+: (\S+)', line)
        if m:
            res[cur]['_pending'] = {'id': m.group(1)}
            continue
        p = res[cur].get('_pending')
        if p is not None:
            m = re.match(r'\s*- Status: (\w+)', line)
            if m:
                p['status'] = m.group(1)
            m = re.match(r'\s*- Description: "(.*)"', line)
            if m:
                p['desc'] = m.group(1).replace('\\"', '').strip('"')
            m = re.match(r'\s*- Location: (.*)', line)
            if m:
                p['loc'] = m.group(1)
                res[cur]['checks'].append(p)
                res[cur]['_pending'] = None
        m = re.match(r'VERIFICATION:- (\w+)', line)
        if m:
            res[cur]['verdict'] = m.group(1)
        m = re.match(r'Verification Time: ([\d.]+)s', line)
        if m:
            res[cur]['time'] = float(m.group(1))
        m = re.match(r'\s*- Stub: (.*)', line)
        if m:
            res[cur]['stubs'].append(m.group(1))
    return res


def parse_terse(text):
    """terse / parallel output: per harness verdict, 'X of Y failed', failed check descriptions"""
    res = {}
    # split by thread blocks: a block starts at 'Thread N: \nVERIFICATION RESULT' ; the harness of a thread is
    # the last 'Thread N: Checking harness H' seen for that thread
    cur_of_thread = {}
    cur = None
    for line in text.split('\n'):
        m = re.match(r'(?:Thread (\d+): )?Checking harness ([\w:]+)', line)
        if m:
            name = m.group(2).split('::')[-1]
            cur_of_thread[m.group(1) or '0'] = name
            res[name] = {'verdict': None, 'total': 0, 'failed_n': 0, 'failed': [], 'time': None}
            if m.group(1) is None:
                cur = name
            continue
        m = re.match(r'Thread (\d+):\s*$', line)
        if m:
            cur = cur_of_thread.get(m.group(1))
            continue
        if cur is None:
            continue
        m = re.search(r'\*\* (\d+) of (\d+) failed', line)
        if m:
            res[cur]['failed_n'] = int(m.group(1))
            res[cur]['total'] = int(m.group(2))
        m = re.match(r'\s*Failed Checks: (.*)', line)
        if m:
            res[cur]['failed'].append({'desc': m.group(1).strip().strip('"'), 'loc': ''})
        m = re.match(r'\s*File: (.*)', line)
        if m and res[cur]['failed']:
            res[cur]['failed'][-1]['loc'] = m.group(1)
        m = re.match(r'VERIFICATION:- (\w+)', line)
        if m:
            res[cur]['verdict'] = m.group(1)
        m = re.match(r'Verification Time: ([\d.]+)s', line)
        if m:
            res[cur]['time'] = float(m.group(1))
    return res


IGNORED_DESC = ('NaN on', 'is NaN', 'overflow on floating-point', 'arithmetic overflow on floating')


def check_class(cid):
    # ids look like  module::fn.assertion.1  /  fn.arithmetic_overflow.2 / ... .NaN.1
    parts = cid.split('.')
    return parts[-2] if len(parts) >= 2 else cid


def run_harnesses(names, tier, timeout=None):
    cfg = load_cfg()
    r = KaniResult()
    t0 = time.time()
    scratch = tempfile.mkdtemp(prefix='vf_kani_')
    try:
        crate = os.path.join(scratch, 'jmespath')
        subprocess.run(['rsync', '-a', '--exclude', 'target', CRATE + '/', crate + '/'], check=True)
        injected = []
        mods = sorted(set(cfg['harnesses'][n]['module'] for n in names))
        for mod in mods:
            mc = cfg['modules'][mod]
            shutil.copy(os.path.join(VERIF, 'kani', mod + '.rs'), os.path.join(crate, 'src', mod + '.rs'))
            parent = os.path.join(crate, 'src', mc['parent'])
            with open(parent, 'a') as f:
                f.write('\n#[cfg(kani)]\n#[path = "%s.rs"]\nmod %s;\n' % (mod, mod))
            injected.append('%s appended to src/%s as child module' % (mod, mc['parent']))
        r.diff_note = '; '.join(injected)
        # offline
        os.makedirs(os.path.join(crate, '.cargo'), exist_ok=True)
        with open(os.path.join(crate, '.cargo', 'config.toml'), 'w') as f:
            f.write('[net]\noffline = true\n')
        env = dict(os.environ, CARGO_NET_OFFLINE='true', CARGO_TARGET_DIR=os.path.join(scratch, 'target'))
        env.pop('RUSTUP_TOOLCHAIN', None)
        to = timeout or int(os.environ.get('VERIF_KANI_TIMEOUT', '1500' if tier == 'quick' else '5400'))

        def invoke(hs, playback):
            cmd = ['cargo', 'kani', '-Z', 'function-contracts', '-Z', 'stubbing']
            if playback:
                cmd += ['--output-format', 'regular', '-Z', 'concrete-playback', '--concrete-playback=print']
            else:
                cmd += ['--output-format', 'terse', '-j', str(min(len(hs), 8))]
            for n in hs:
                cmd += ['--harness', n]
            pp = subprocess.run(cmd, cwd=crate, env=env, capture_output=True, text=True, timeout=to)
            return cmd, pp.stdout + '\n' + pp.stderr

        try:
            cmd, out = invoke(names, False)
        except subprocess.TimeoutExpired:
            r.status = 'undecided'
            r.undecided_reason = 'kani timeout after %ds' % to
            return r
        r.cmd = 'CARGO_NET_OFFLINE=true ' + ' '.join(cmd) + '   (in a scratch rsync copy of /repo/jmespath with kani/*.rs injected; harnesses with failed checks are re-run with --output-format regular -Z concrete-playback --concrete-playback=print)'
        terse = parse_terse(out)
        for n in names:
            hc = cfg['harnesses'][n]
            h = {'harness': n, 'bounded': hc.get('bounded'), 'complete': not hc.get('bounded'),
                 'properties': hc['properties'], 'status': 'ok', 'checks_total': 0, 'checks_failed': 0,
                 'ignored_checks': 0, 'failures': [], 'time_s': None, 'stubs': [],
                 'assertions': hc.get('assertions')}
            t = terse.get(n)
            if not t or t['verdict'] is None:
                h['status'] = 'undecided'
                r.status = 'undecided'
                r.undecided_reason = 'no verdict for harness %s: %s' % (n, out[-800:])
                r.harnesses.append(h)
                continue
            h['time_s'] = t['time']
            real = [f for f in t['failed'] if not any(x in f['desc'] for x in IGNORED_DESC)]
            ign = len(t['failed']) - len(real)
            h['ignored_checks'] = ign
            h['checks_total'] = max(t['total'] - ign, 0)
            h['checks_failed'] = len(real)
            wit = None
            if real:
                try:
                    _, out2 = invoke([n], True)
                    p2 = parse_output(out2, [n]).get(n)
                    if p2 and p2['playback']:
                        wit = decode(p2['playback'], hc.get('decode', []))
                except subprocess.TimeoutExpired:
                    pass
            for f in real:
                desc = f['desc']
                kind = 'assert'
                if re.search(r'overflow|out of bounds|index|unwind|dereference|division by zero', desc):
                    kind = 'overflow' if 'overflow' in desc or 'division' in desc else 'bounds'
                label = re.sub(r'[^A-Za-z0-9_.-]+', '_', desc)[:60].strip('_')
                props = list(hc.get('labels', {}).get(desc, hc['properties']))
                if kind != 'assert' and 'C05' not in props:
                    props.append('C05')
                h['failures'].append({
                    'obligation': 'kani/%s#%s:%s' % (n, kind, label), 'kind': kind, 'label': label,
                    'properties': props, 'function': hc.get('function'), 'message': desc,
                    'site': {'repo': hc.get('repo_location'), 'text': f['loc']},
                    'clause': desc, 'rendered': 'Kani check FAILED: %s at %s (harness %s)' % (desc, f['loc'], n),
                    'backend': 'kani', 'witness': wit, 'witness_key': None, 'bounded': hc.get('bounded'),
                })
            r.harnesses.append(h)
        # replay witnesses on the real crate
        for h in r.harnesses:
            for f in h['failures']:
                if f.get('witness'):
                    try:
                        import replaydrv
                        rep = replaydrv.replay(h['harness'], f['witness'], scratch)
                        f['replay'] = rep
                        f['witness_replayed'] = bool(rep and rep.get('reproduced'))
                    except Exception as e:  # replay is best effort
                        f['replay'] = {'error': repr(e)}
        return r
    finally:
        r.wall_s = time.time() - t0
        shutil.rmtree(scratch, ignore_errors=True)


if __name__ == '__main__':
    import sys
    rr = run_harnesses(sys.argv[1:], 'quick')
    print(json.dumps(rr.to_json(), indent=1))
