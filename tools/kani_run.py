"""Kani path (DESIGN 3.2) - filled in below."""


class KaniResult:
    def __init__(self):
        self.status = 'ok'
        self.undecided_reason = None
        self.harnesses = []
        self.cmd = ''

    def to_json(self):
        return {'status': self.status, 'undecided_reason': self.undecided_reason, 'harnesses': self.harnesses, 'cmd': self.cmd}


def run_harnesses(names, tier):
    r = KaniResult()
    r.status = 'undecided'
    r.undecided_reason = 'kani path not built yet'
    return r
