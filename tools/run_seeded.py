#!/usr/bin/env python3
"""Run the quick checks against every seeded change in /verif/seeded (scratch copies of /repo, never /repo itself)
and write seeded/RESULTS.json + a table: which check catches which change.
usage: tools/run_seeded.py [ids...] [--jobs N] [--all-props]"""
import concurrent.futures as cf
import json, os, re, shutil, subprocess, sys, tempfile
VERIF = os.path.dirname(os.path.dirname(os.path.abspath(__file__)))
cfg = json.load(open(os.path.join(VERIF, 'config/properties.json')))
FAST = [p for p in sorted(cfg) if not cfg[p].get('kani_quick') and p not in ('C16',)]


def run_one(sid, all_props):
    d = os.path.join(VERIF, 'seeded', sid)
    meta = json.load(open(os.path.join(d, 'meta.json')))
    target = meta['breaks_property']
    scratch = tempfile.mkdtemp(prefix='seeded_%s_' % sid)
    try:
        subprocess.run(['rsync', '-a', '--exclude', 'target', '--exclude', '.git', '/repo/', scratch + '/repo/'], check=True)
        p = subprocess.run(['patch', '-p1', '-s', '-i', os.path.join(d, 'patch.diff')], cwd=scratch + '/repo', capture_output=True, text=True)
        if p.returncode != 0:
            return sid, {'error': 'patch failed: ' + p.stdout + p.stderr}
        props = [target] if target in cfg else []
        if all_props:
            props = sorted(set(props + FAST))
        out = {}
        env = dict(os.environ, VERIF_REPO_SRC=scratch + '/repo/jmespath/src', VERIF_REPO=scratch + '/repo', VERIF_OUT_DIR=scratch + '/out')
        for pr in props:
            q = subprocess.run([os.path.join(VERIF, 'bin/check'), pr, '--tier', 'quick'], cwd=VERIF, env=env, capture_output=True, text=True)
            viol = [re.search(r'obligation=(\S+)', l).group(1) for l in q.stdout.split('\n') if l.startswith('VIOLATION')]
            und = [l[11:200] for l in q.stdout.split('\n') if l.startswith('UNDECIDED')]
            out[pr] = {'exit': q.returncode, 'violations': viol, 'undecided': und}
        return sid, {'target': target, 'target_claimed': target in cfg, 'checks': out}
    finally:
        shutil.rmtree(scratch, ignore_errors=True)


def main():
    args = [a for a in sys.argv[1:] if not a.startswith('--')]
    jobs = 4
    for a in sys.argv[1:]:
        if a.startswith('--jobs='):
            jobs = int(a[7:])
    all_props = '--all-props' in sys.argv
    ids = args or sorted(x for x in os.listdir(os.path.join(VERIF, 'seeded')) if os.path.isdir(os.path.join(VERIF, 'seeded', x)))
    res = {}
    rp = os.path.join(VERIF, 'seeded', 'RESULTS.json')
    if os.path.exists(rp) and args:
        res = json.load(open(rp))
    with cf.ThreadPoolExecutor(max_workers=jobs) as pool:
        for sid, r in pool.map(lambda s: run_one(s, all_props), ids):
            res[sid] = r
            t = r.get('target')
            tc = (r.get('checks') or {}).get(t, {})
            verdict = 'CAUGHT' if tc.get('exit') == 1 else ('UNDECIDED(exit 2)' if tc.get('exit') == 2 else ('MISSED' if tc else 'property not claimed'))
            others = [p for p, c in (r.get('checks') or {}).items() if p != t and c['exit'] == 1]
            print('%-12s target=%s %-18s %s %s' % (sid, t, verdict, (tc.get('violations') or tc.get('undecided') or [''])[0][:90], ('also: ' + ','.join(others)) if others else ''), flush=True)
    json.dump(res, open(rp, 'w'), indent=1)


if __name__ == '__main__':
    main()
