"""Brace/string/comment-aware scanner for Rust source text.

Locates items *by name* (never by line number) in a source file and returns
their exact text span.  Used by extract.py.  Nothing here parses Rust fully:
the scanner blanks comments, string/char literals and then works with regexes
and bracket matching on the blanked "mask", which has the same length and the
same line structure as the source.
"""
import re


class LostAnchor(Exception):
    pass


def mask_source(src):
    """Return a string of the same length with comments and the *contents* of
    string / char literals replaced by spaces (newlines are kept)."""
    out = list(src)
    n = len(src)
    i = 0

    def blank(a, b):
        for k in range(a, b):
            if out[k] != '\n':
                out[k] = ' '

    while i < n:
        c = src[i]
        if c == '/' and i + 1 < n and src[i + 1] == '/':
            j = src.find('\n', i)
            if j < 0:
                j = n
            blank(i, j)
            i = j
        elif c == '/' and i + 1 < n and src[i + 1] == '*':
            depth = 1
            j = i + 2
            while j < n and depth:
                if src.startswith('/*', j):
                    depth += 1
                    j += 2
                elif src.startswith('*/', j):
                    depth -= 1
                    j += 2
                else:
                    j += 1
            blank(i, j)
            i = j
        elif c == 'r' and re.match(r'r#*"', src[i:i + 8]) and (i == 0 or not (src[i - 1].isalnum() or src[i - 1] == '_')):
            m = re.match(r'r(#*)"', src[i:])
            hashes = m.group(1)
            end = src.find('"' + hashes, i + len(m.group(0)))
            if end < 0:
                end = n
            j = end + 1 + len(hashes)
            blank(i + len(m.group(0)), end)
            i = j
        elif c == '"':
            j = i + 1
            while j < n and src[j] != '"':
                if src[j] == '\\':
                    j += 1
                j += 1
            blank(i + 1, min(j, n))
            i = j + 1
        elif c == "'":
            # char literal or lifetime
            if i + 1 < n and src[i + 1] == '\\':
                j = src.find("'", i + 2)
                # '\'' : the escaped quote
                if j == i + 2:
                    j = src.find("'", i + 3)
                blank(i + 1, j)
                i = j + 1
            elif i + 2 < n and src[i + 2] == "'":
                blank(i + 1, i + 2)
                i = i + 3
            else:
                i += 1  # lifetime
        else:
            i += 1
    return ''.join(out)


OPEN = {'{': '}', '(': ')', '[': ']'}
CLOSE = {v: k for k, v in OPEN.items()}


def match_close(mask, pos):
    """mask[pos] is an opening bracket; return index of its closing bracket."""
    want = [OPEN[mask[pos]]]
    i = pos + 1
    n = len(mask)
    while i < n:
        c = mask[i]
        if c in OPEN:
            want.append(OPEN[c])
        elif c in CLOSE:
            if not want or want[-1] != c:
                raise LostAnchor('unbalanced bracket at %d' % i)
            want.pop()
            if not want:
                return i
        i += 1
    raise LostAnchor('unclosed bracket at %d' % pos)


def find_body_open(mask, start):
    """From `start` (an item keyword) find the `{` that opens the item body, or
    the `;` that ends a body-less item, at bracket depth 0."""
    i = start
    n = len(mask)
    angle = 0
    while i < n:
        c = mask[i]
        if c in '([':
            i = match_close(mask, i) + 1
            continue
        if c == '{':
            return i
        if c == ';':
            return i
        i += 1
    raise LostAnchor('no body found after %d' % start)


class Item:
    def __init__(self, src, mask, start, open_, end, path):
        self.src = src
        self.mask = mask
        self.start = start      # first char of the item (visibility / keyword)
        self.open = open_       # index of `{` (or of `;` when body-less)
        self.end = end          # index one past the closing `}` / `;`
        self.path = path

    @property
    def text(self):
        return self.src[self.start:self.end]

    @property
    def header(self):
        return self.src[self.start:self.open]

    @property
    def body(self):
        """text between the braces (exclusive)"""
        return self.src[self.open + 1:self.end - 1]

    def line_of(self, idx):
        return self.src.count('\n', 0, idx) + 1

    @property
    def first_line(self):
        return self.line_of(self.start)

    @property
    def last_line(self):
        return self.line_of(self.end - 1)


VIS = r'(?:pub(?:\s*\([^)]*\))?\s+)?'


def norm_ws(s):
    return re.sub(r'\s+', ' ', s.strip())


def _step_pattern(step):
    kind, _, name = step.strip().partition(' ')
    name = name.strip()
    if kind == 'fn':
        return VIS + r'(?:const\s+|async\s+|unsafe\s+)*fn\s+' + re.escape(name) + r'\b', True
    if kind in ('enum', 'struct', 'trait', 'type', 'const', 'static', 'mod'):
        return VIS + kind + r'\s+' + re.escape(name) + r'\b', True
    if kind == 'macro':
        return r'macro_rules!\s*' + re.escape(name) + r'\b', True
    if kind in ('impl', 'impl*'):
        parts = name.split(' for ')

        def ty(p):
            p = p.strip()
            return r'(?:[A-Za-z_0-9]+::)*' + re.escape(p) + r'(?:\s*<[^{;]*?>)?'
        if len(parts) == 2:
            body = ty(parts[0]) + r'\s+for\s+' + ty(parts[1])
        else:
            body = ty(parts[0])
        # `impl*` = may be nested inside a function body (serde visitor)
        return r'\bimpl\b(?:\s*<[^{;]*?>)?\s+' + body + r'\s*(?:where[^{]*)?(?=\{)', kind == 'impl'
    raise LostAnchor('bad locator step: ' + step)


def _candidates(src, mask, lo, hi, steps, path):
    step0 = steps[0]
    nth = None
    mm = re.match(r'(.*)#(\d+)$', step0)
    if mm:                       # `fn name#2`: the 2nd item of that name in this scope (cfg-duplicated items)
        step0, nth = mm.group(1), int(mm.group(2))
    pat, depth0 = _step_pattern(step0)
    out = []
    hits = [m for m in re.finditer(pat, mask[lo:hi])]
    if depth0:
        hits = [m for m in hits if mask[lo:lo + m.start()].count('{') == mask[lo:lo + m.start()].count('}')]
    if nth is not None:
        hits = hits[nth - 1:nth]
    for m in hits:
        s = lo + m.start()
        if depth0:
            seg = mask[lo:s]
            if seg.count('{') != seg.count('}'):
                continue
        o = find_body_open(mask, s)
        e = o + 1 if mask[o] == ';' else match_close(mask, o) + 1
        it = Item(src, mask, s, o, e, path)
        if len(steps) == 1:
            out.append((it, [it]))
        else:
            for sub, chain in _candidates(src, mask, o + 1, e - 1, steps[1:], path):
                out.append((sub, [it] + chain))
    return out


def locate(src, path, locator):
    """locator: list of steps, each 'fn NAME' | 'enum NAME' | 'struct NAME' |
    'const NAME' | 'type NAME' | 'trait NAME' | 'macro NAME' | 'impl HEADER' |
    'impl* HEADER' (an impl nested in a function body).  HEADER is matched with
    generics ignored: 'impl Variable', 'impl Function for AbsFn', 'impl Parser'.
    Steps nest: ['impl Variable', 'fn get_field'].  Exactly one match is required
    (several inherent `impl X` blocks are searched as one)."""
    mask = mask_source(src)
    c = _candidates(src, mask, 0, len(src), [s.strip() for s in locator], path)
    what = ' :: '.join(locator)
    if not c:
        raise LostAnchor('%s: item not found: %s' % (path, what))
    if len(c) > 1:
        raise LostAnchor('%s: item ambiguous (%d matches): %s' % (path, len(c), what))
    return c[0]


def loops_in(body_mask):
    """Return [(keyword_start, header_open_brace_index)] for each while/for/loop
    in textual order inside a function body mask."""
    res = []
    for m in re.finditer(r'\b(while|for|loop)\b', body_mask):
        s = m.start()
        # `for` inside `impl<..> X for Y` or HRTB does not occur in fn bodies we extract
        # find the `{` that opens the loop body at bracket depth 0
        i = m.end()
        n = len(body_mask)
        while i < n:
            c = body_mask[i]
            if c in '([':
                i = match_close(body_mask, i) + 1
                continue
            if c == '{':
                break
            if c == ';':
                i = -1
                break
            i += 1
        if i is None or i < 0 or i >= n:
            continue
        res.append((s, i))
    return res
