#!/bin/bash
# usage: tools/try_sed.sh <file under jmespath/src> '<sed expr>' <unit> [...]  -- run units against a scratch copy with a sed mutation
F=$1; E=$2; shift; shift
D=$(mktemp -d /tmp/trysed.XXXXXX)
cp -r /repo/jmespath/src $D/src
sed -i "$E" $D/src/$F
if diff -q $D/src/$F /repo/jmespath/src/$F >/dev/null; then echo "MUTATION DID NOT APPLY"; fi
for u in "$@"; do VERIF_REPO_SRC=$D/src python3 "$(dirname "$0")/runner.py" $u | grep -E "FAIL|undecided" | cut -c1-200; done
rm -rf $D
