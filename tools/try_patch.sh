#!/bin/bash
# usage: tools/try_patch.sh <patch.diff> <unit> [<unit>...]   -- run units against a scratch copy of /repo with the patch applied
set -e
P=$(readlink -f "$1"); shift
D=$(mktemp -d /tmp/trypatch.XXXXXX)
rsync -a --exclude target --exclude .git /repo/ $D/
(cd $D && patch -p1 -s < "$P")
for u in "$@"; do VERIF_REPO_SRC=$D/jmespath/src python3 "$(dirname "$0")/runner.py" $u | grep -v "^verified" ; done
rm -rf $D
