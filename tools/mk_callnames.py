#!/usr/bin/env python3
"""Record, per unit, the names called from extracted /repo code on the current (pinned) tree -> config/callnames.json.
Run only on the unchanged tree."""
import json, os, sys
VERIF = os.path.dirname(os.path.dirname(os.path.abspath(__file__)))
sys.path.insert(0, os.path.join(VERIF, 'tools'))
import extract as X, runner
out = {}
for f in sorted(os.listdir(os.path.join(VERIF, 'units'))):
    if not f.endswith('.vu'):
        continue
    u = f[:-3]
    names = set()
    for rc in ('Rc', 'Arc'):
        gen, text = X.generate(u, {'RC': rc})
        names |= runner.call_names(gen, text)
    out[u] = sorted(names)
json.dump(out, open(os.path.join(VERIF, 'config', 'callnames.json'), 'w'), indent=1, sort_keys=True)
print({u: len(v) for u, v in out.items()})
