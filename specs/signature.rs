// ---- oracle for signatures (from the property statement C06)
// typed array = array whose every element is of the type; union = some member; expref only matches Expref.
pub open spec fn type_ok(t: ArgumentType, v: Variable) -> bool
    decreases t, 0int
{
    match t {
        ArgumentType::Any => true,
        ArgumentType::Null => v is Null,
        ArgumentType::String => v is String,
        ArgumentType::Number => v is Number,
        ArgumentType::Bool => v is Bool,
        ArgumentType::Object => v is Object,
        ArgumentType::Array => v is Array,
        ArgumentType::Expref => v is Expref,
        ArgumentType::TypedArray(inner) => v is Array && all_ok(*inner, v->Array_0@, v->Array_0@.len()),
        ArgumentType::Union(types) => some_ok(types@, v, types@.len()),
    }
}
pub open spec fn all_ok(t: ArgumentType, s: Seq<Rcvar>, n: nat) -> bool
    decreases t, n
{ if n == 0 { true } else { type_ok(t, *s[n - 1]) && all_ok(t, s, (n - 1) as nat) } }
pub open spec fn some_ok(ts: Seq<ArgumentType>, v: Variable, n: nat) -> bool
    decreases ts, n
{ if n == 0 || n > ts.len() { false } else { type_ok(ts[n - 1], v) || some_ok(ts, v, (n - 1) as nat) } }

pub proof fn lemma_all(t: ArgumentType, s: Seq<Rcvar>, n: nat, r: bool)
    requires n <= s.len(),
        r ==> forall|i: int| 0 <= i < s.len() ==> type_ok(t, *s[i]),
        !r ==> exists|i: int| 0 <= i < s.len() && !type_ok(t, *s[i]),
    ensures n == s.len() ==> r == all_ok(t, s, n),
        (forall|i: int| 0 <= i < n ==> type_ok(t, *s[i])) == all_ok(t, s, n),
    decreases n
{
    if n > 0 { lemma_all(t, s, (n - 1) as nat, r); }
}
pub proof fn lemma_all_forall(t: ArgumentType, s: Seq<Rcvar>, n: nat)
    requires n <= s.len(),
    ensures (forall|i: int| 0 <= i < n ==> type_ok(t, *s[i])) == all_ok(t, s, n),
    decreases n
{
    if n > 0 { lemma_all_forall(t, s, (n - 1) as nat); }
}
pub proof fn lemma_some(ts: Seq<ArgumentType>, v: Variable, n: nat, r: bool)
    requires n <= ts.len(),
        r ==> exists|i: int| 0 <= i < ts.len() && type_ok(ts[i], v),
        !r ==> forall|i: int| 0 <= i < ts.len() ==> !type_ok(ts[i], v),
    ensures n == ts.len() ==> r == some_ok(ts, v, n),
        (exists|i: int| 0 <= i < n && type_ok(ts[i], v)) == some_ok(ts, v, n),
    decreases n
{
    if n > 0 { lemma_some(ts, v, (n - 1) as nat, r); }
}

// ---- trusted idiom helpers (R5): the external body IS the original expression
#[verifier::external_body]
fn idiom_all<T, F: Fn(&T) -> bool>(s: &Vec<T>, f: F) -> (r: bool)
    requires forall|i: int| 0 <= i < s@.len() ==> f.requires((&s@[i],)),
    ensures
        r ==> forall|i: int| 0 <= i < s@.len() ==> f.ensures((&s@[i],), true),
        !r ==> exists|i: int| 0 <= i < s@.len() && f.ensures((&s@[i],), false),
{ s.iter().all(f) }
// T2: the same through `skip(k)` / `take(k)`: only the elements from k on / before k are examined
#[verifier::external_body]
fn idiom_all_skip<T, F: Fn(&T) -> bool>(s: &Vec<T>, k: usize, f: F) -> (r: bool)
    requires forall|i: int| 0 <= i < s@.len() ==> f.requires((&s@[i],)),
    ensures
        r ==> forall|i: int| k <= i < s@.len() ==> f.ensures((&s@[i],), true),
        !r ==> exists|i: int| k <= i < s@.len() && f.ensures((&s@[i],), false),
{ s.iter().skip(k).all(f) }
#[verifier::external_body]
fn idiom_all_take<T, F: Fn(&T) -> bool>(s: &Vec<T>, k: usize, f: F) -> (r: bool)
    requires forall|i: int| 0 <= i < s@.len() ==> f.requires((&s@[i],)),
    ensures
        r ==> forall|i: int| 0 <= i < s@.len() && i < k ==> f.ensures((&s@[i],), true),
        !r ==> exists|i: int| 0 <= i < s@.len() && i < k && f.ensures((&s@[i],), false),
{ s.iter().take(k).all(f) }
#[verifier::external_body]
fn idiom_any<T, F: Fn(&T) -> bool>(s: &Vec<T>, f: F) -> (r: bool)
    requires forall|i: int| 0 <= i < s@.len() ==> f.requires((&s@[i],)),
    ensures
        r ==> exists|i: int| 0 <= i < s@.len() && f.ensures((&s@[i],), true),
        !r ==> forall|i: int| 0 <= i < s@.len() ==> f.ensures((&s@[i],), false),
{ s.iter().any(f) }
// Display of argument types / value types (write!-based, outside Verus): names are uninterpreted here
pub uninterp spec fn display_argtype(t: ArgumentType) -> Seq<char>;
pub uninterp spec fn display_type(t: JmespathType) -> Seq<char>;
#[verifier::external_body]
fn idiom_argtype_to_string(t: &ArgumentType) -> (s: String) ensures s@ == display_argtype(*t) { t.to_string() }
#[verifier::external_body]
fn idiom_type_to_string(t: JmespathType) -> (s: String) ensures s@ == display_type(t) { t.to_string() }

// ---- signature acceptance
pub open spec fn arity_ok(sig: Signature, actual: int) -> bool {
    if sig.variadic is Some { actual >= sig.inputs@.len() } else { actual == sig.inputs@.len() }
}
pub open spec fn arity_reason(sig: Signature, actual: usize) -> ErrorReason {
    let expected = sig.inputs@.len() as usize;
    if actual < expected { ErrorReason::Runtime(RuntimeError::NotEnoughArguments { expected, actual }) }
    else { ErrorReason::Runtime(RuntimeError::TooManyArguments { expected, actual }) }
}
pub open spec fn param_type(sig: Signature, k: int) -> ArgumentType {
    if 0 <= k < sig.inputs@.len() { sig.inputs@[k] } else { sig.variadic->Some_0 }
}
pub open spec fn all_args_ok(sig: Signature, args: Seq<Rcvar>, n: nat) -> bool
    decreases n
{ if n == 0 { true } else { type_ok(param_type(sig, n - 1), *args[n - 1]) && all_args_ok(sig, args, (n - 1) as nat) } }
pub open spec fn sig_accepts(sig: Signature, args: Seq<Rcvar>) -> bool {
    arity_ok(sig, args.len() as int) && all_args_ok(sig, args, args.len())
}
pub proof fn lemma_all_args(sig: Signature, args: Seq<Rcvar>, n: nat)
    requires n <= args.len()
    ensures all_args_ok(sig, args, n) == (forall|k: int| 0 <= k < n ==> type_ok(param_type(sig, k), *args[k])),
    decreases n
{ if n > 0 { lemma_all_args(sig, args, (n - 1) as nat); } }
