// ---- oracle for C01/C07/C10/C11/C13/C15: witness-carrying big-step semantics of JMESPath expressions,
// written from the JMESPath specification (one clause per node kind).  `w` is a ghost derivation tree:
// `exists` directly under a recursive spec fn does not verify (DESIGN section 2), a witness does.

pub uninterp spec fn rt_lookup(rt: &Runtime, name: Seq<char>) -> Option<&dyn Function>;   // registry view, see unit `runtime`

pub ghost enum W {
    Atom,
    One(Box<W>, Variable),                          // sub-derivation + its value
    Two(Box<W>, Variable, Box<W>, Variable),        // two sub-derivations + their values
    Proj(Box<W>, Variable, Seq<W>, Seq<Rcvar>),     // lhs derivation + value, per-element derivations + values
    Many(Seq<W>, Seq<Rcvar>),                       // per-member derivations + values
}

// ---------- leaf rules
pub open spec fn field_of(d: Variable, name: Seq<char>) -> Variable {
    match d {
        Variable::Object(m) => if obj_view(m).dom().contains(name) { *obj_view(m)[name] } else { Variable::Null },
        _ => Variable::Null,    // absent or wrongly-typed subject => null
    }
}
pub open spec fn index_of(d: Variable, idx: int) -> Variable {
    match d {
        Variable::Array(a) => {
            let i = if idx >= 0 { idx } else { a@.len() + idx };   // a negative index n selects length + n
            if 0 <= i < a@.len() { *a@[i] } else { Variable::Null }
        },
        _ => Variable::Null,
    }
}
pub open spec fn compare_spec(l: Variable, cmp: Comparator, r: Variable) -> Option<bool> {
    match cmp {
        Comparator::Equal => Some(var_eq(l, r)),
        Comparator::NotEqual => Some(!var_eq(l, r)),                       // '!=' is always the negation of '=='
        _ => if l is Number && r is Number {                                // ordering needs two numbers ...
                Some(match cmp {
                    Comparator::LessThan => var_cmp(l, r) == Ordering::Less,
                    Comparator::LessThanEqual => var_cmp(l, r) == Ordering::Less || var_eq(l, r),        // a<=b iff a<b or a==b
                    Comparator::GreaterThan => var_cmp(l, r) == Ordering::Greater,
                    _ => var_cmp(l, r) == Ordering::Greater || var_eq(l, r),                            // a>=b iff a>b or a==b
                })
             } else { None },                                               // ... and is null otherwise
    }
}
pub open spec fn non_null(s: Seq<Rcvar>) -> Seq<Rcvar> { s.filter(|v: Rcvar| !(*v is Null)) }
// one-level flatten of the first n elements
pub open spec fn flat(s: Seq<Rcvar>, n: nat) -> Seq<Rcvar>
    decreases n
{
    if n == 0 || n > s.len() { Seq::empty() } else {
        let e = s[n - 1];
        match *e { Variable::Array(inner) => flat(s, (n - 1) as nat) + inner@, _ => flat(s, (n - 1) as nat).push(e) }
    }
}
// multi-select hash: insert members in order (a later duplicate key wins)
pub open spec fn hash_of(kvps: Seq<KeyValuePair>, vals: Seq<Rcvar>, n: nat) -> Map<Seq<char>, Rcvar>
    decreases n
{
    if n == 0 || n > kvps.len() || n > vals.len() { Map::empty() } else { hash_of(kvps, vals, (n - 1) as nat).insert(kvps[n - 1].key@, vals[n - 1]) }
}

// ---------- the relation
pub open spec fn per_elem(rt: &Runtime, rhs: Ast, elems: Seq<Rcvar>, per: Seq<Rcvar>, ws: Seq<W>) -> bool
    decreases rhs, 1int
{
    per.len() == elems.len() && ws.len() == elems.len()
    && forall|i: int| 0 <= i < per.len() ==> evals_w(rt, rhs, *elems[i], *#[trigger] per[i], ws[i])
}
pub open spec fn members(rt: &Runtime, nodes: Seq<Ast>, d: Variable, vals: Seq<Rcvar>, ws: Seq<W>) -> bool
    decreases nodes, 1int
{
    vals.len() == nodes.len() && ws.len() == nodes.len()
    && forall|i: int| 0 <= i < nodes.len() ==> evals_w(rt, nodes[i], d, *#[trigger] vals[i], ws[i])
}
pub open spec fn kv_members(rt: &Runtime, kvps: Seq<KeyValuePair>, d: Variable, vals: Seq<Rcvar>, ws: Seq<W>) -> bool
    decreases kvps, 1int
{
    vals.len() == kvps.len() && ws.len() == kvps.len()
    && forall|i: int| 0 <= i < kvps.len() ==> evals_w(rt, kvps[i].value, d, *#[trigger] vals[i], ws[i])
}

pub open spec fn evals_w(rt: &Runtime, node: Ast, d: Variable, r: Variable, w: W) -> bool
    decreases node, 0int
{
    match node {
        Ast::Field { name, .. } => r == field_of(d, name@),
        Ast::Identity { .. } => r == d,
        Ast::Literal { value, .. } => r == *value,
        Ast::Index { idx, .. } => r == index_of(d, idx as int),
        Ast::Slice { start, stop, step, .. } => step != 0 && match d {
            Variable::Array(a) => r is Array && slice_rule(a@, start, stop, step as int, r->Array_0@),
            _ => r == Variable::Null,
        },
        Ast::Expref { ast, .. } => r == Variable::Expref(*ast),
        Ast::Subexpr { lhs, rhs, .. } => w matches W::Two(w1, m, w2, _)
            && evals_w(rt, *lhs, d, m, *w1) && evals_w(rt, *rhs, m, r, *w2),
        Ast::Or { lhs, rhs, .. } => w matches W::Two(w1, l, w2, _)
            && evals_w(rt, *lhs, d, l, *w1) && if truthy(l) { r == l } else { evals_w(rt, *rhs, d, r, *w2) },
        Ast::And { lhs, rhs, .. } => w matches W::Two(w1, l, w2, _)
            && evals_w(rt, *lhs, d, l, *w1) && if !truthy(l) { r == l } else { evals_w(rt, *rhs, d, r, *w2) },
        Ast::Not { node: n, .. } => w matches W::One(w1, x)
            && evals_w(rt, *n, d, x, *w1) && r == Variable::Bool(!truthy(x)),
        Ast::Condition { predicate, then, .. } => w matches W::Two(w1, c, w2, _)
            && evals_w(rt, *predicate, d, c, *w1) && if truthy(c) { evals_w(rt, *then, d, r, *w2) } else { r == Variable::Null },
        Ast::Comparison { comparator, lhs, rhs, .. } => w matches W::Two(w1, l, w2, rr)
            && evals_w(rt, *lhs, d, l, *w1) && evals_w(rt, *rhs, d, rr, *w2)
            && r == match compare_spec(l, comparator, rr) { Some(b) => Variable::Bool(b), None => Variable::Null },
        Ast::ObjectValues { node: n, .. } => w matches W::One(w1, s)
            && evals_w(rt, *n, d, s, *w1) && match s {
                Variable::Object(m) => r is Array && r->Array_0@ == sorted_values(obj_view(m)),   // ascending key order
                _ => r == Variable::Null,
            },
        Ast::Projection { lhs, rhs, .. } => w matches W::Proj(w1, l, ws, per)
            && evals_w(rt, *lhs, d, l, *w1) && match l {
                Variable::Array(elems) => r is Array && per_elem(rt, *rhs, elems@, per, ws) && r->Array_0@ == non_null(per),
                _ => r == Variable::Null,
            },
        Ast::Flatten { node: n, .. } => w matches W::One(w1, s)
            && evals_w(rt, *n, d, s, *w1) && match s {
                Variable::Array(a) => r is Array && r->Array_0@ == flat(a@, a@.len()),
                _ => r == Variable::Null,
            },
        Ast::MultiList { elements, .. } => if d is Null { r == Variable::Null } else {
            w matches W::Many(ws, vals) && members(rt, elements@, d, vals, ws) && r is Array && r->Array_0@ == vals
        },
        Ast::MultiHash { elements, .. } => if d is Null { r == Variable::Null } else {
            w matches W::Many(ws, vals) && kv_members(rt, elements@, d, vals, ws) && r is Object
                && obj_view(r->Object_0) == hash_of(elements@, vals, elements@.len())
        },
        // a call: arguments are evaluated against the current node in source order (expression references
        // arrive unevaluated, by the Expref clause); the name must be bound; the result is the function's
        Ast::Function { name, args, .. } => w matches W::Many(ws, vals)
            && members(rt, args@, d, vals, ws) && rt_lookup(rt, name@) is Some,
    }
}

/// the relation without its witness
pub open spec fn evals(rt: &Runtime, node: Ast, d: Variable, r: Variable) -> bool { exists|w: W| evals_w(rt, node, d, r, w) }
