// ---- C11: compositionality laws, stated from the property text over the relation that the real `interpret`
// is proved to satisfy (contract `evals` of unit interp).  No law looks inside a sub-derivation, so each holds
// for parts that contain function calls too.

//# pipe-law [C11]
// searching '(L) | (R)' (and 'L.R') equals searching R on the result of searching L
pub proof fn pipe_law(rt: &Runtime, offset: usize, l: Ast, r: Ast, d: Variable, res: Variable)
    ensures evals(rt, Ast::Subexpr { offset, lhs: Box::new(l), rhs: Box::new(r) }, d, res)
        <==> exists|m: Variable| evals(rt, l, d, m) && evals(rt, r, m, res),
{
    let node = Ast::Subexpr { offset, lhs: Box::new(l), rhs: Box::new(r) };
    if evals(rt, node, d, res) {
        let w = choose|w: W| evals_w(rt, node, d, res, w);
        let m = w->Two_1;
        assert(evals_w(rt, l, d, m, *w->Two_0));
        assert(evals_w(rt, r, m, res, *w->Two_2));
        assert(evals(rt, l, d, m) && evals(rt, r, m, res));
    }
    if exists|m: Variable| evals(rt, l, d, m) && evals(rt, r, m, res) {
        let m = choose|m: Variable| evals(rt, l, d, m) && evals(rt, r, m, res);
        let w1 = choose|w: W| evals_w(rt, l, d, m, w);
        let w2 = choose|w: W| evals_w(rt, r, m, res, w);
        assert(evals_w(rt, node, d, res, W::Two(Box::new(w1), m, Box::new(w2), Variable::Null)));
    }
}

//# projection-law [C11 C01]
// a projection over an array result applies the right-hand side to each element separately, keeps order and
// drops nulls; over anything else it is null
pub proof fn projection_law(rt: &Runtime, offset: usize, l: Ast, r: Ast, d: Variable, res: Variable)
    requires evals(rt, Ast::Projection { offset, lhs: Box::new(l), rhs: Box::new(r) }, d, res),
    ensures exists|lv: Variable| evals(rt, l, d, lv) && match lv {
        Variable::Array(elems) => res is Array && exists|per: Seq<Rcvar>| per.len() == elems@.len()
            && (forall|i: int| 0 <= i < per.len() ==> evals(rt, r, *elems@[i], *#[trigger] per[i]))
            && res->Array_0@ == non_null(per),
        _ => res == Variable::Null,
    },
{
    let node = Ast::Projection { offset, lhs: Box::new(l), rhs: Box::new(r) };
    let w = choose|w: W| evals_w(rt, node, d, res, w);
    let lv = w->Proj_1;
    assert(evals_w(rt, l, d, lv, *w->Proj_0));
    if let Variable::Array(elems) = lv {
        let per = w->Proj_3;
        let ws = w->Proj_2;
        assert(per_elem(rt, r, elems@, per, ws));
        assert forall|i: int| 0 <= i < per.len() implies evals(rt, r, *elems@[i], *#[trigger] per[i]) by {
            assert(evals_w(rt, r, *elems@[i], *per[i], ws[i]));
        }
        assert(per.len() == elems@.len() && res->Array_0@ == non_null(per));
    }
    assert(evals(rt, l, d, lv));
}

//# filter-law [C11 C01]
// a filter keeps exactly the elements whose predicate is truthy (the parser builds Projection(lhs, Condition(pred, then)))
pub proof fn filter_law(rt: &Runtime, offset: usize, pred: Ast, then: Ast, e: Variable, res: Variable)
    requires evals(rt, Ast::Condition { offset, predicate: Box::new(pred), then: Box::new(then) }, e, res),
    ensures exists|c: Variable| evals(rt, pred, e, c) && (if truthy(c) { evals(rt, then, e, res) } else { res == Variable::Null }),
{
    let node = Ast::Condition { offset, predicate: Box::new(pred), then: Box::new(then) };
    let w = choose|w: W| evals_w(rt, node, e, res, w);
    let c = w->Two_1;
    assert(evals_w(rt, pred, e, c, *w->Two_0));
    if truthy(c) { assert(evals_w(rt, then, e, res, *w->Two_2)); assert(evals(rt, then, e, res)); }
    assert(evals(rt, pred, e, c));
}

//# multi-list-law [C11 C01]
pub proof fn multi_list_law(rt: &Runtime, offset: usize, elements: Vec<Ast>, d: Variable, res: Variable)
    requires evals(rt, Ast::MultiList { offset, elements }, d, res),
    ensures if d is Null { res == Variable::Null } else {
        res is Array && res->Array_0@.len() == elements@.len()
        && forall|i: int| 0 <= i < elements@.len() ==> evals(rt, elements@[i], d, *#[trigger] res->Array_0@[i]) },
{
    let node = Ast::MultiList { offset, elements };
    let w = choose|w: W| evals_w(rt, node, d, res, w);
    if !(d is Null) {
        let ws = w->Many_0; let vals = w->Many_1;
        assert(members(rt, elements@, d, vals, ws));
        assert forall|i: int| 0 <= i < elements@.len() implies evals(rt, elements@[i], d, *#[trigger] res->Array_0@[i]) by {
            assert(evals_w(rt, elements@[i], d, *vals[i], ws[i]));
        }
    }
}

//# multi-hash-law [C11 C01]
pub proof fn multi_hash_law(rt: &Runtime, offset: usize, elements: Vec<KeyValuePair>, d: Variable, res: Variable)
    requires evals(rt, Ast::MultiHash { offset, elements }, d, res),
    ensures if d is Null { res == Variable::Null } else {
        res is Object && exists|vals: Seq<Rcvar>| vals.len() == elements@.len()
            && (forall|i: int| 0 <= i < elements@.len() ==> evals(rt, elements@[i].value, d, *#[trigger] vals[i]))
            && obj_view(res->Object_0) == hash_of(elements@, vals, elements@.len()) },
{
    let node = Ast::MultiHash { offset, elements };
    let w = choose|w: W| evals_w(rt, node, d, res, w);
    if !(d is Null) {
        let ws = w->Many_0; let vals = w->Many_1;
        assert(kv_members(rt, elements@, d, vals, ws));
        assert forall|i: int| 0 <= i < elements@.len() implies evals(rt, elements@[i].value, d, *#[trigger] vals[i]) by {
            assert(evals_w(rt, elements@[i].value, d, *vals[i], ws[i]));
        }
    }
}

//# not-and-or-laws [C11 C01]
// '!', '&&', '||' are the truth-table combination of their operands' individual results; '||' / '&&' return
// an operand and do not depend on the right side when the left decides
pub proof fn not_law(rt: &Runtime, offset: usize, n: Ast, d: Variable, res: Variable)
    requires evals(rt, Ast::Not { offset, node: Box::new(n) }, d, res),
    ensures exists|x: Variable| evals(rt, n, d, x) && res == Variable::Bool(!truthy(x)),
{
    let w = choose|w: W| evals_w(rt, Ast::Not { offset, node: Box::new(n) }, d, res, w);
    assert(evals_w(rt, n, d, w->One_1, *w->One_0));
    assert(evals(rt, n, d, w->One_1));
}
pub proof fn or_law(rt: &Runtime, offset: usize, l: Ast, r: Ast, d: Variable, res: Variable)
    requires evals(rt, Ast::Or { offset, lhs: Box::new(l), rhs: Box::new(r) }, d, res),
    ensures exists|x: Variable| evals(rt, l, d, x) && (if truthy(x) { res == x } else { evals(rt, r, d, res) }),
{
    let w = choose|w: W| evals_w(rt, Ast::Or { offset, lhs: Box::new(l), rhs: Box::new(r) }, d, res, w);
    let x = w->Two_1;
    assert(evals_w(rt, l, d, x, *w->Two_0));
    if !truthy(x) { assert(evals_w(rt, r, d, res, *w->Two_2)); assert(evals(rt, r, d, res)); }
    assert(evals(rt, l, d, x));
}
pub proof fn and_law(rt: &Runtime, offset: usize, l: Ast, r: Ast, d: Variable, res: Variable)
    requires evals(rt, Ast::And { offset, lhs: Box::new(l), rhs: Box::new(r) }, d, res),
    ensures exists|x: Variable| evals(rt, l, d, x) && (if !truthy(x) { res == x } else { evals(rt, r, d, res) }),
{
    let w = choose|w: W| evals_w(rt, Ast::And { offset, lhs: Box::new(l), rhs: Box::new(r) }, d, res, w);
    let x = w->Two_1;
    assert(evals_w(rt, l, d, x, *w->Two_0));
    if truthy(x) { assert(evals_w(rt, r, d, res, *w->Two_2)); assert(evals(rt, r, d, res)); }
    assert(evals(rt, l, d, x));
}
