// ---- oracle for C03 / C04 (parser half): the JMESPath grammar read at token level with the standard
// binding-power disambiguation, written from the property statements:
//   * an expression is a prefix form followed by infix/postfix forms while the next token binds tighter than
//     the context (rbp < lbp(next)); the right operand of a binary operator is parsed with the operator's own
//     power (left associativity); a projection's right-hand side continues on '.', '[' and '[?' and stops at
//     every token binding looser than PROJECTION_STOP;
//   * list elements, function arguments and key-value pairs are comma separated, multi-selects are non-empty,
//     '(' directly after an unquoted identifier token is a call; neither a quoted identifier nor a parenthesised
//     expression can be a function name,
//     the right-hand side of '.' is an identifier, '*', '{', '[' multi-select;
//   * DEVIATION (known finding D13, known_findings.json): the published grammar has expression-type = '&' expression
//     only under function-arg; the implementation takes '&' as a prefix form of any expression and after '.', and
//     this oracle follows it there (the two `Token::Ampersand` lines below) - the only place where it does;
//   * bracket contents are an index, a slice with at most two colons, '*', or a multi-select list.
// The functions return the tree SHAPE (no offsets, except the call offset = position of '(' and the slice
// offset = position of the closing ']', which C12 constrains) and the remaining tokens.

pub ghost enum Shape {
    Comparison(Comparator, Box<Shape>, Box<Shape>),
    Condition(Box<Shape>, Box<Shape>),
    Identity,
    Expref(Box<Shape>),
    Flatten(Box<Shape>),
    Function(usize, Seq<char>, Seq<Shape>),
    Field(Seq<char>),
    Index(i32),
    Literal(Rcvar),
    MultiList(Seq<Shape>),
    MultiHash(Seq<(Seq<char>, Shape)>),
    Not(Box<Shape>),
    Projection(Box<Shape>, Box<Shape>),
    ObjectValues(Box<Shape>),
    And(Box<Shape>, Box<Shape>),
    Or(Box<Shape>, Box<Shape>),
    Slice(usize, Option<i32>, Option<i32>, i32),
    Subexpr(Box<Shape>, Box<Shape>),
}

pub open spec fn same(a: Ast, s: Shape) -> bool
    decreases a
{
    match (a, s) {
        (Ast::Comparison { comparator, lhs, rhs, .. }, Shape::Comparison(c, l, r)) => comparator == c && same(*lhs, *l) && same(*rhs, *r),
        (Ast::Condition { predicate, then, .. }, Shape::Condition(p, t)) => same(*predicate, *p) && same(*then, *t),
        (Ast::Identity { .. }, Shape::Identity) => true,
        (Ast::Expref { ast, .. }, Shape::Expref(e)) => same(*ast, *e),
        (Ast::Flatten { node, .. }, Shape::Flatten(n)) => same(*node, *n),
        (Ast::Function { offset, name, args }, Shape::Function(o, n, ss)) => offset == o && name@ == n && args@.len() == ss.len()
            && forall|i: int| 0 <= i < ss.len() ==> same(#[trigger] args@[i], ss[i]),
        (Ast::Field { name, .. }, Shape::Field(n)) => name@ == n,
        (Ast::Index { idx, .. }, Shape::Index(i)) => idx == i,
        (Ast::Literal { value, .. }, Shape::Literal(v)) => value == v,
        (Ast::MultiList { elements, .. }, Shape::MultiList(ss)) => elements@.len() == ss.len()
            && forall|i: int| 0 <= i < ss.len() ==> same(#[trigger] elements@[i], ss[i]),
        (Ast::MultiHash { elements, .. }, Shape::MultiHash(ss)) => elements@.len() == ss.len()
            && forall|i: int| 0 <= i < ss.len() ==> (#[trigger] elements@[i]).key@ == ss[i].0 && same(elements@[i].value, ss[i].1),
        (Ast::Not { node, .. }, Shape::Not(n)) => same(*node, *n),
        (Ast::Projection { lhs, rhs, .. }, Shape::Projection(l, r)) => same(*lhs, *l) && same(*rhs, *r),
        (Ast::ObjectValues { node, .. }, Shape::ObjectValues(n)) => same(*node, *n),
        (Ast::And { lhs, rhs, .. }, Shape::And(l, r)) => same(*lhs, *l) && same(*rhs, *r),
        (Ast::Or { lhs, rhs, .. }, Shape::Or(l, r)) => same(*lhs, *l) && same(*rhs, *r),
        (Ast::Slice { offset, start, stop, step }, Shape::Slice(o, a, b, c)) => offset == o && start == a && stop == b && step == c,
        (Ast::Subexpr { lhs, rhs, .. }, Shape::Subexpr(l, r)) => same(*lhs, *l) && same(*rhs, *r),
        _ => false,
    }
}

pub type Toks = Seq<(usize, Token)>;
pub open spec fn pk(ts: Toks, k: int) -> Token { if 0 <= k < ts.len() { ts[k].1 } else { Token::Eof } }   // lookahead; Eof past the end
pub open spec fn adv(ts: Toks) -> Toks { if ts.len() > 0 { ts.skip(1) } else { ts } }                    // consume one token
pub open spec fn bp(t: Token) -> int { t.lbp_spec() as int }                                               // the proved binding-power table (unit lbp)

pub type PR = Option<(Shape, Toks)>;

// ---------- expression = prefix form, then infix/postfix forms while rbp < lbp(next)
pub open spec fn g_expr(ts: Toks, rbp: int) -> PR
    decreases ts.len(), 2int
{
    match g_nud(ts) {
        Some((left, rest)) => if rest.len() < ts.len() { g_loop(left, rest, rbp) } else { None },
        None => None,
    }
}
pub open spec fn g_loop(left: Shape, ts: Toks, rbp: int) -> PR
    decreases ts.len(), 1int
{
    if rbp < bp(pk(ts, 0)) {
        match g_led(left, ts) {
            Some((l2, rest)) => if rest.len() < ts.len() { g_loop(l2, rest, rbp) } else { None },
            None => None,
        }
    } else { Some((left, ts)) }
}

// ---------- prefix forms
pub open spec fn g_nud(ts: Toks) -> PR
    decreases ts.len(), 0int
{
    let t = pk(ts, 0);
    let rest = adv(ts);
    if ts.len() == 0 { None } else {
    match t {
        Token::At => Some((Shape::Identity, rest)),
        Token::Identifier(v) => Some((Shape::Field(v@), rest)),
        Token::QuotedIdentifier(v) => if pk(rest, 0) == Token::Lparen { None } else { Some((Shape::Field(v@), rest)) },   // not a function name
        Token::Star => g_wildcard_values(Shape::Identity, rest),
        Token::Literal(v) => Some((Shape::Literal(v), rest)),
        Token::Lbracket => match pk(rest, 0) {
            Token::Number(_) | Token::Colon => g_index(rest),
            Token::Star => if pk(rest, 1) == Token::Rbracket { g_wildcard_index(Shape::Identity, adv(rest)) } else { g_multi_list(rest) },
            _ => g_multi_list(rest),
        },
        Token::Flatten => g_flatten(Shape::Identity, rest),
        Token::Lbrace => match g_kvps(rest, Seq::empty()) { Some((ps, r2)) => Some((Shape::MultiHash(ps), r2)), None => None },
        Token::Ampersand => match g_expr(rest, bp(Token::Ampersand)) { Some((e, r2)) => Some((Shape::Expref(Box::new(e)), r2)), None => None },
        Token::Not => match g_expr(rest, bp(Token::Not)) { Some((e, r2)) => Some((Shape::Not(Box::new(e)), r2)), None => None },
        Token::Filter => g_filter(Shape::Identity, rest),
        Token::Lparen => match g_expr(rest, 0) {
            // parentheses add no node; a function name is an unquoted identifier token, so '(' e ')' '(' is no sentence
            Some((e, r2)) => if pk(r2, 0) == Token::Rparen && r2.len() > 0 && pk(adv(r2), 0) != Token::Lparen { Some((e, adv(r2))) } else { None },
            None => None,
        },
        _ => None,
    } }
}

// ---------- infix / postfix forms
pub open spec fn g_led(left: Shape, ts: Toks) -> PR
    decreases ts.len(), 0int
{
    let t = pk(ts, 0);
    let rest = adv(ts);
    if ts.len() == 0 { None } else {
    match t {
        Token::Dot => if pk(rest, 0) == Token::Star { g_wildcard_values(left, adv(rest)) } else {
            match g_dot(rest, bp(Token::Dot)) { Some((r, r2)) => Some((Shape::Subexpr(Box::new(left), Box::new(r)), r2)), None => None } },
        Token::Lbracket => match pk(rest, 0) {
            Token::Number(_) | Token::Colon => match g_index(rest) { Some((r, r2)) => Some((Shape::Subexpr(Box::new(left), Box::new(r)), r2)), None => None },
            Token::Star => g_wildcard_index(left, adv(rest)),
            _ => None,
        },
        Token::Or => match g_expr(rest, bp(Token::Or)) { Some((r, r2)) => Some((Shape::Or(Box::new(left), Box::new(r)), r2)), None => None },
        Token::And => match g_expr(rest, bp(Token::And)) { Some((r, r2)) => Some((Shape::And(Box::new(left), Box::new(r)), r2)), None => None },
        Token::Pipe => match g_expr(rest, bp(Token::Pipe)) { Some((r, r2)) => Some((Shape::Subexpr(Box::new(left), Box::new(r)), r2)), None => None },
        Token::Lparen => match left {
            Shape::Field(name) => match g_list(rest, Token::Rparen, Seq::empty()) {      // call: '(' after a Field node, at the '(' position
                Some((args, r2)) => Some((Shape::Function(ts[0].0, name, args), r2)), None => None },
            _ => None,
        },
        Token::Flatten => g_flatten(left, rest),
        Token::Filter => g_filter(left, rest),
        Token::Eq => g_comparator(Comparator::Equal, left, rest),
        Token::Ne => g_comparator(Comparator::NotEqual, left, rest),
        Token::Gt => g_comparator(Comparator::GreaterThan, left, rest),
        Token::Gte => g_comparator(Comparator::GreaterThanEqual, left, rest),
        Token::Lt => g_comparator(Comparator::LessThan, left, rest),
        Token::Lte => g_comparator(Comparator::LessThanEqual, left, rest),
        _ => None,
    } }
}
pub open spec fn g_comparator(c: Comparator, left: Shape, ts: Toks) -> PR
    decreases ts.len(), 3int
{
    match g_expr(ts, bp(Token::Eq)) { Some((r, r2)) => Some((Shape::Comparison(c, Box::new(left), Box::new(r)), r2)), None => None }
}
// right-hand side of '.': identifier, '*', '{', '[' multi-select, '&'
pub open spec fn g_dot(ts: Toks, lbp: int) -> PR
    decreases ts.len(), 3int
{
    match pk(ts, 0) {
        Token::Lbracket => if ts.len() > 0 { g_multi_list(adv(ts)) } else { None },
        Token::Identifier(_) | Token::QuotedIdentifier(_) | Token::Star | Token::Lbrace | Token::Ampersand => g_expr(ts, lbp),
        _ => None,
    }
}
// what may follow a projection
pub open spec fn g_proj_rhs(ts: Toks, lbp: int) -> PR
    decreases ts.len(), 4int
{
    match pk(ts, 0) {
        Token::Dot => if ts.len() > 0 { g_dot(adv(ts), lbp) } else { None },
        Token::Lbracket | Token::Filter => g_expr(ts, lbp),
        t => if bp(t) < PROJECTION_STOP { Some((Shape::Identity, ts)) } else { None },
    }
}
pub open spec fn g_wildcard_index(lhs: Shape, ts: Toks) -> PR
    decreases ts.len(), 5int
{
    if ts.len() > 0 && pk(ts, 0) == Token::Rbracket {
        match g_proj_rhs(adv(ts), bp(Token::Star)) { Some((r, r2)) => Some((Shape::Projection(Box::new(lhs), Box::new(r)), r2)), None => None }
    } else { None }
}
pub open spec fn g_wildcard_values(lhs: Shape, ts: Toks) -> PR
    decreases ts.len(), 5int
{
    match g_proj_rhs(ts, bp(Token::Star)) { Some((r, r2)) => Some((Shape::Projection(Box::new(Shape::ObjectValues(Box::new(lhs))), Box::new(r)), r2)), None => None }
}
pub open spec fn g_flatten(lhs: Shape, ts: Toks) -> PR
    decreases ts.len(), 5int
{
    match g_proj_rhs(ts, bp(Token::Flatten)) { Some((r, r2)) => Some((Shape::Projection(Box::new(Shape::Flatten(Box::new(lhs))), Box::new(r)), r2)), None => None }
}
pub open spec fn g_filter(lhs: Shape, ts: Toks) -> PR
    decreases ts.len(), 5int
{
    match g_expr(ts, 0) {
        Some((cond, r2)) => if r2.len() > 0 && pk(r2, 0) == Token::Rbracket && r2.len() <= ts.len() {
            match g_proj_rhs(adv(r2), bp(Token::Filter)) {
                Some((r, r3)) => Some((Shape::Projection(Box::new(lhs), Box::new(Shape::Condition(Box::new(cond), Box::new(r)))), r3)),
                None => None }
        } else { None },
        None => None,
    }
}
// comma separated, possibly empty list up to `closing` (function arguments; multi-select lists add non-emptiness)
pub open spec fn g_list(ts: Toks, closing: Token, acc: Seq<Shape>) -> Option<(Seq<Shape>, Toks)>
    decreases ts.len(), 3int
{
    if pk(ts, 0) == closing { if ts.len() > 0 { Some((acc, adv(ts))) } else { None } } else {
        match g_expr(ts, 0) {
            Some((e, r)) => if r.len() < ts.len() {
                if pk(r, 0) == Token::Comma {
                    let r2 = adv(r);
                    if pk(r2, 0) == closing { None } else { g_list(r2, closing, acc.push(e)) }     // no trailing comma
                } else if pk(r, 0) == closing { g_list(r, closing, acc.push(e)) }
                else { None }                                                                       // elements must be comma separated
            } else { None },
            None => None,
        }
    }
}
pub open spec fn g_multi_list(ts: Toks) -> PR
    decreases ts.len(), 4int
{
    match g_list(ts, Token::Rbracket, Seq::empty()) {
        Some((es, r)) => if es.len() > 0 { Some((Shape::MultiList(es), r)) } else { None },        // multi-selects are non-empty
        None => None,
    }
}
// one or more `key : expr` pairs separated by commas, closed by '}'
pub open spec fn tok_key(t: Token) -> Option<Seq<char>> {
    match t { Token::Identifier(v) => Some(v@), Token::QuotedIdentifier(v) => Some(v@), _ => None }
}
pub open spec fn g_kvp(ts: Toks) -> Option<((Seq<char>, Shape), Toks)>
    decreases ts.len(), 3int
{
    if tok_key(pk(ts, 0)) is None || ts.len() < 2 || pk(ts, 1) != Token::Colon { None } else {
        match g_expr(ts.skip(2), 0) { Some((e, r)) => Some(((tok_key(pk(ts, 0))->Some_0, e), r)), None => None }
    }
}
pub open spec fn g_kvps(ts: Toks, acc: Seq<(Seq<char>, Shape)>) -> Option<(Seq<(Seq<char>, Shape)>, Toks)>
    decreases ts.len(), 4int
{
    match g_kvp(ts) {
        Some((p, r)) => if r.len() == 0 || r.len() >= ts.len() { None } else {
            match pk(r, 0) {
                Token::Rbrace => Some((acc.push(p), adv(r))),
                Token::Comma => g_kvps(adv(r), acc.push(p)),
                _ => None,
            } },
        None => None,
    }
}
// bracket contents after '[' when the next token is a number or ':' : index or slice (at most two colons)
pub open spec fn g_index(ts: Toks) -> PR
    decreases ts.len(), 5int
{
    g_index_loop(ts, None, None, None, 0)
}
pub open spec fn g_index_loop(ts: Toks, p0: Option<i32>, p1: Option<i32>, p2: Option<i32>, pos: int) -> PR
    decreases ts.len(), 4int
{
    if ts.len() == 0 { None } else {
    match pk(ts, 0) {
        Token::Number(v) => match pk(ts, 1) {
            Token::Colon | Token::Rbracket => if pos == 0 { g_index_loop(adv(ts), Some(v), p1, p2, pos) }
                                              else if pos == 1 { g_index_loop(adv(ts), p0, Some(v), p2, pos) }
                                              else { g_index_loop(adv(ts), p0, p1, Some(v), pos) },
            _ => None,
        },
        Token::Rbracket => if pos == 0 {
                match p0 { Some(i) => Some((Shape::Index(i), adv(ts))), None => None }
            } else {
                let step = match p2 { Some(s) => s, None => 1i32 };                      // default step 1
                match g_proj_rhs(adv(ts), bp(Token::Star)) {
                    Some((r, r2)) => Some((Shape::Projection(Box::new(Shape::Slice(ts[0].0, p0, p1, step)), Box::new(r)), r2)),
                    None => None }
            },
        Token::Colon => if pos >= 2 { None } else {
            match pk(ts, 1) {
                Token::Number(_) | Token::Colon | Token::Rbracket => g_index_loop(adv(ts), p0, p1, p2, pos + 1),
                _ => None,
            } },
        _ => None,
    } }
}
/// a sentence: one expression followed by the end of input
pub open spec fn g_parse(ts: Toks) -> Option<Shape> {
    match g_expr(ts, 0) {
        Some((e, rest)) => if pk(rest, 0) == Token::Eof { Some(e) } else { None },
        None => None,
    }
}
