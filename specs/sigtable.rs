// ---- oracle: the signature table of the JMESPath function specification (jmespath.org/specification.html,
// "Built-in Functions"), transcribed per function.  `Any` = every JSON value.  Two readings of an `any` position are
// stated as separate clauses: `sig_conforms` (all JSON values accepted; used by the builtin proofs) and `sig_strict`
// (additionally no expression reference accepted, which is what C06 says); every other position must reject
// expression references, and `Expref` positions accept nothing else.
pub enum SpecT { Any, Number, Str, Object, Array, Expref, ArrNum, ArrStr, StrOrArr, ArrNumOrArrStr, StrArrObj }
pub open spec fn spec_ok(t: SpecT, v: Variable) -> bool {
    match t {
        SpecT::Any => !(v is Expref),
        SpecT::Number => v is Number,
        SpecT::Str => v is String,
        SpecT::Object => v is Object,
        SpecT::Array => v is Array,
        SpecT::Expref => v is Expref,
        SpecT::ArrNum => v is Array && all_ok(ArgumentType::Number, v->Array_0@, v->Array_0@.len()),
        SpecT::ArrStr => v is Array && all_ok(ArgumentType::String, v->Array_0@, v->Array_0@.len()),
        SpecT::StrOrArr => v is String || v is Array,
        SpecT::ArrNumOrArrStr => v is Array && (all_ok(ArgumentType::Number, v->Array_0@, v->Array_0@.len())
                                               || all_ok(ArgumentType::String, v->Array_0@, v->Array_0@.len())),
        SpecT::StrArrObj => v is String || v is Array || v is Object,
    }
}
pub open spec fn conforms(code: ArgumentType, st: SpecT) -> bool {
    forall|v: Variable| #![trigger type_ok(code, v)]
        if st is Any { !(v is Expref) ==> type_ok(code, v) } else { type_ok(code, v) == spec_ok(st, v) }
}
pub struct SpecSig { pub params: Seq<SpecT>, pub variadic: Option<SpecT> }
pub open spec fn sig_conforms(sig: Signature, ss: SpecSig) -> bool {
    &&& sig.inputs@.len() == ss.params.len()
    &&& forall|k: int| 0 <= k < ss.params.len() ==> conforms(#[trigger] sig.inputs@[k], ss.params[k])
    &&& match (sig.variadic, ss.variadic) { (Some(c), Some(s)) => conforms(c, s), (None, None) => true, _ => false }
}
/// the same with `any` read strictly (C06: "expression references where values are required ... fails with an
/// invalid-type error"): an `any` position accepts every JSON value and no expression reference
pub open spec fn conforms_strict(code: ArgumentType, st: SpecT) -> bool {
    forall|v: Variable| #![trigger type_ok(code, v)] type_ok(code, v) == spec_ok(st, v)
}
pub open spec fn sig_strict(sig: Signature, ss: SpecSig) -> bool {
    &&& sig.inputs@.len() == ss.params.len()
    &&& forall|k: int| 0 <= k < ss.params.len() ==> conforms_strict(#[trigger] sig.inputs@[k], ss.params[k])
    &&& match (sig.variadic, ss.variadic) { (Some(c), Some(s)) => conforms_strict(c, s), (None, None) => true, _ => false }
}
pub enum Builtin { Abs, Avg, Ceil, Contains, EndsWith, Floor, Join, Keys, Length, Map, Max, Min, MaxBy, MinBy, Merge, NotNull, Reverse, Sort, SortBy, StartsWith, Sum, ToArray, ToNumber, ToString, Type, Values }
pub open spec fn spec_sig(b: Builtin) -> SpecSig {
    match b {
        Builtin::Abs => SpecSig { params: seq![SpecT::Number], variadic: None },
        Builtin::Avg => SpecSig { params: seq![SpecT::ArrNum], variadic: None },
        Builtin::Ceil => SpecSig { params: seq![SpecT::Number], variadic: None },
        Builtin::Contains => SpecSig { params: seq![SpecT::StrOrArr, SpecT::Any], variadic: None },
        Builtin::EndsWith => SpecSig { params: seq![SpecT::Str, SpecT::Str], variadic: None },
        Builtin::Floor => SpecSig { params: seq![SpecT::Number], variadic: None },
        Builtin::Join => SpecSig { params: seq![SpecT::Str, SpecT::ArrStr], variadic: None },
        Builtin::Keys => SpecSig { params: seq![SpecT::Object], variadic: None },
        Builtin::Length => SpecSig { params: seq![SpecT::StrArrObj], variadic: None },
        Builtin::Map => SpecSig { params: seq![SpecT::Expref, SpecT::Array], variadic: None },
        Builtin::Max => SpecSig { params: seq![SpecT::ArrNumOrArrStr], variadic: None },
        Builtin::Min => SpecSig { params: seq![SpecT::ArrNumOrArrStr], variadic: None },
        Builtin::MaxBy => SpecSig { params: seq![SpecT::Array, SpecT::Expref], variadic: None },
        Builtin::MinBy => SpecSig { params: seq![SpecT::Array, SpecT::Expref], variadic: None },
        Builtin::Merge => SpecSig { params: seq![SpecT::Object], variadic: Some(SpecT::Object) },
        Builtin::NotNull => SpecSig { params: seq![SpecT::Any], variadic: Some(SpecT::Any) },
        Builtin::Reverse => SpecSig { params: seq![SpecT::StrOrArr], variadic: None },
        Builtin::Sort => SpecSig { params: seq![SpecT::ArrNumOrArrStr], variadic: None },
        Builtin::SortBy => SpecSig { params: seq![SpecT::Array, SpecT::Expref], variadic: None },
        Builtin::StartsWith => SpecSig { params: seq![SpecT::Str, SpecT::Str], variadic: None },
        Builtin::Sum => SpecSig { params: seq![SpecT::ArrNum], variadic: None },
        Builtin::ToArray => SpecSig { params: seq![SpecT::Any], variadic: None },
        Builtin::ToNumber => SpecSig { params: seq![SpecT::Any], variadic: None },
        Builtin::ToString => SpecSig { params: seq![SpecT::Any], variadic: None },
        Builtin::Type => SpecSig { params: seq![SpecT::Any], variadic: None },
        Builtin::Values => SpecSig { params: seq![SpecT::Object], variadic: None },
    }
}

pub proof fn lemma_some_exists(ts: Seq<ArgumentType>, v: Variable, n: nat)
    requires n <= ts.len()
    ensures some_ok(ts, v, n) == (exists|i: int| 0 <= i < n && type_ok(ts[i], v)),
    decreases n
{ if n > 0 { lemma_some_exists(ts, v, (n - 1) as nat); } }
// proof hint used by every generated constructor: a union is decided by membership of some member type
pub proof fn lemma_sig_hint(sig: Signature)
    ensures forall|k: int, v: Variable| #![trigger type_ok(sig.inputs@[k], v)] 0 <= k < sig.inputs@.len() && sig.inputs@[k] is Union ==>
        (type_ok(sig.inputs@[k], v) == (exists|i: int| 0 <= i < sig.inputs@[k]->Union_0@.len() && type_ok(sig.inputs@[k]->Union_0@[i], v)))
{
    assert forall|k: int, v: Variable| #![trigger type_ok(sig.inputs@[k], v)] 0 <= k < sig.inputs@.len() && sig.inputs@[k] is Union implies
        (type_ok(sig.inputs@[k], v) == (exists|i: int| 0 <= i < sig.inputs@[k]->Union_0@.len() && type_ok(sig.inputs@[k]->Union_0@[i], v))) by {
        let ts = sig.inputs@[k]->Union_0;
        lemma_some_exists(ts@, v, ts@.len());
    }
}
