// ---- C09: the raw-string spelling of s evaluates to s.
// T2: std's str::replace for a two-character pattern and a one-character replacement = leftmost, non-overlapping
pub open spec fn replace2(s: Seq<char>, a: char, b: char, to: char) -> Seq<char>
    decreases s.len()
{
    if s.len() == 0 { s }
    else if s.len() >= 2 && s[0] == a && s[1] == b { seq![to] + replace2(s.skip(2), a, b, to) }
    else { seq![s[0]] + replace2(s.skip(1), a, b, to) }
}
#[verifier::external_body]
pub proof fn axiom_str_replace2(s: Seq<char>)
    ensures str_replace(s, "\\'"@, "'"@) == replace2(s, '\\', '\'', '\''),
{ }
/// the raw-string spelling of s (without the enclosing quotes): every quote is written as backslash-quote
pub open spec fn raw_esc(s: Seq<char>) -> Seq<char>
    decreases s.len()
{ if s.len() == 0 { s } else if s[0] == '\'' { seq!['\\', '\''] + raw_esc(s.skip(1)) } else { seq![s[0]] + raw_esc(s.skip(1)) } }
/// strings that have a raw-string spelling under the rule "only backslash-quote is an escape": no backslash
/// immediately before a quote, and no trailing backslash (for any other string no spelling can denote it)
pub open spec fn raw_ok(s: Seq<char>) -> bool {
    (s.len() > 0 ==> s[s.len() - 1] != '\\') && forall|i: int| 0 <= i < s.len() - 1 && s[i] == '\\' ==> #[trigger] s[i + 1] != '\''
}
pub open spec fn chars(cs: Cs) -> Seq<char> { Seq::new(cs.len(), |i: int| cs[i].1) }

proof fn lemma_raw_ok_skip(s: Seq<char>, k: int)
    requires raw_ok(s), 0 <= k <= s.len(),
    ensures raw_ok(s.skip(k)),
{
    let t = s.skip(k);
    assert forall|i: int| 0 <= i < t.len() - 1 && t[i] == '\\' implies #[trigger] t[i + 1] != '\'' by { assert(s[i + k + 1] != '\''); }
}
//# raw-string-scan-stops-at-the-closing-quote [C09]
pub proof fn lemma_scan_raw(cs: Cs, s: Seq<char>, acc: Seq<char>)
    requires raw_ok(s), cs.len() >= raw_esc(s).len() + 1,
        forall|i: int| 0 <= i < raw_esc(s).len() ==> cs[i].1 == #[trigger] raw_esc(s)[i],
        cs[raw_esc(s).len() as int].1 == '\'',
    ensures scan_inside(cs, '\'', acc) == Some((acc + raw_esc(s), cs.skip(raw_esc(s).len() as int + 1))),
    decreases s.len()
{
    let e = raw_esc(s);
    if s.len() == 0 {
        assert(acc + e =~= acc);
    } else if s[0] == '\'' {
        let e1 = raw_esc(s.skip(1));
        assert(e =~= seq!['\\', '\''] + e1);
        assert(cs[0].1 == e[0] && cs[1].1 == e[1]);
        lemma_raw_ok_skip(s, 1);
        let cs2 = cs.skip(2);
        assert forall|i: int| 0 <= i < e1.len() implies cs2[i].1 == #[trigger] e1[i] by { assert(cs[i + 2].1 == e[i + 2]); }
        lemma_scan_raw(cs2, s.skip(1), acc.push('\\').push('\''));
        assert(acc.push('\\').push('\'') + e1 =~= acc + e);
        assert(cs2.skip(e1.len() as int + 1) =~= cs.skip(e.len() as int + 1));
    } else if s[0] == '\\' {
        // a literal backslash: the scanner pairs it with the next character, which is not a quote
        assert(s.len() >= 2);
        assert(s[1] != '\'');
        let e2 = raw_esc(s.skip(2));
        assert(raw_esc(s.skip(1)) =~= seq![s[1]] + e2) by { assert(s.skip(1).skip(1) =~= s.skip(2)); }
        assert(e =~= seq!['\\', s[1]] + e2);
        assert(cs[0].1 == e[0] && cs[1].1 == e[1]);
        lemma_raw_ok_skip(s, 2);
        let cs2 = cs.skip(2);
        assert forall|i: int| 0 <= i < e2.len() implies cs2[i].1 == #[trigger] e2[i] by { assert(cs[i + 2].1 == e[i + 2]); }
        lemma_scan_raw(cs2, s.skip(2), acc.push('\\').push(s[1]));
        assert(acc.push('\\').push(s[1]) + e2 =~= acc + e);
        assert(cs2.skip(e2.len() as int + 1) =~= cs.skip(e.len() as int + 1));
    } else {
        let e1 = raw_esc(s.skip(1));
        assert(e =~= seq![s[0]] + e1);
        assert(cs[0].1 == e[0]);
        lemma_raw_ok_skip(s, 1);
        let cs1 = cs.skip(1);
        assert forall|i: int| 0 <= i < e1.len() implies cs1[i].1 == #[trigger] e1[i] by { assert(cs[i + 1].1 == e[i + 1]); }
        lemma_scan_raw(cs1, s.skip(1), acc.push(s[0]));
        assert(acc.push(s[0]) + e1 =~= acc + e);
        assert(cs1.skip(e1.len() as int + 1) =~= cs.skip(e.len() as int + 1));
    }
}
//# raw-string-unescape-inverts-the-spelling [C09]
pub proof fn lemma_replace_raw(s: Seq<char>)
    requires raw_ok(s),
    ensures replace2(raw_esc(s), '\\', '\'', '\'') == s,
    decreases s.len()
{
    let e = raw_esc(s);
    if s.len() == 0 {
    } else if s[0] == '\'' {
        let e1 = raw_esc(s.skip(1));
        assert(e =~= seq!['\\', '\''] + e1);
        assert(e.skip(2) =~= e1);
        lemma_raw_ok_skip(s, 1);
        lemma_replace_raw(s.skip(1));
        assert(seq!['\''] + s.skip(1) =~= s);
    } else {
        let e1 = raw_esc(s.skip(1));
        assert(e =~= seq![s[0]] + e1);
        assert(e.skip(1) =~= e1);
        if s[0] == '\\' {
            // not followed by a quote in the spelling: s[1] is not a quote, and raw_esc(s.skip(1)) starts with s[1]
            assert(s.len() >= 2 && s[1] != '\'');
            assert(e1[0] == s[1]);
        }
        lemma_raw_ok_skip(s, 1);
        lemma_replace_raw(s.skip(1));
        assert(seq![s[0]] + s.skip(1) =~= s);
    }
}
//# raw-string-roundtrip [C09]
/// For every string s that has a raw-string spelling: lexing  ' raw_esc(s) '  yields the literal s.
pub proof fn raw_roundtrip(cs: Cs, s: Seq<char>)
    requires raw_ok(s), cs.len() >= raw_esc(s).len() + 2, cs[0].1 == '\'',
        forall|i: int| 0 <= i < raw_esc(s).len() ==> cs[i + 1].1 == #[trigger] raw_esc(s)[i],
        cs[raw_esc(s).len() as int + 1].1 == '\'',
    ensures lex_one(cs) matches Some((t, rest)) && rest == cs.skip(raw_esc(s).len() as int + 2)
        && (t matches Token::Literal(v) && *v is String && (*v)->String_0@ == s),
{
    let r = cs.skip(1);
    let e = raw_esc(s);
    assert forall|i: int| 0 <= i < e.len() implies r[i].1 == #[trigger] e[i] by { assert(cs[i + 1].1 == e[i]); }
    lemma_scan_raw(r, s, Seq::empty());
    assert(Seq::<char>::empty() + e =~= e);
    axiom_str_replace2(e);
    lemma_replace_raw(s);
    broadcast use axiom_ident_string;
    assert(r.skip(e.len() as int + 1) =~= cs.skip(e.len() as int + 2));
}
