pub proof fn lemma_filter_push(s: Seq<Rcvar>, v: Rcvar)
    ensures non_null(s.push(v)) == (if *v is Null { non_null(s) } else { non_null(s).push(v) })
{
    assert(s.push(v).drop_last() =~= s);
    reveal(Seq::filter);
}
pub proof fn lemma_hash_prefix(kvps: Seq<KeyValuePair>, v1: Seq<Rcvar>, v2: Seq<Rcvar>, n: nat)
    requires n <= v1.len(), n <= v2.len(), forall|i: int| 0 <= i < n ==> v1[i] == v2[i],
    ensures hash_of(kvps, v1, n) == hash_of(kvps, v2, n),
    decreases n
{
    if n > 0 && n <= kvps.len() { lemma_hash_prefix(kvps, v1, v2, (n - 1) as nat); }
}
