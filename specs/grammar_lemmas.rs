// ---- progress: every grammar function returns a (non-strict) suffix no longer than its input; expressions consume
pub proof fn lemma_loop_le(left: Shape, ts: Toks, rbp: int)
    ensures g_loop(left, ts, rbp) matches Some((_, r)) ==> r.len() <= ts.len(),
    decreases ts.len(), 1int
{
    if rbp < bp(pk(ts, 0)) {
        if let Some((l2, rest)) = g_led(left, ts) { if rest.len() < ts.len() { lemma_loop_le(l2, rest, rbp); } }
    }
}
pub proof fn lemma_expr_lt(ts: Toks, rbp: int)
    ensures g_expr(ts, rbp) matches Some((_, r)) ==> r.len() < ts.len(),
{
    if let Some((left, rest)) = g_nud(ts) { if rest.len() < ts.len() { lemma_loop_le(left, rest, rbp); } }
}
