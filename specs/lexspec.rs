// ---- oracle for C03 (lexical half), C09, C12 (token positions): the JMESPath lexical rules as this implementation
// documents them, written from the property statements:
//   identifier = [A-Za-z_][A-Za-z0-9_]* (maximal run); number = ASCII digits whose value fits i32; '-' must be
//   followed by 1-9; two-character operators || && == != <= >= ; '[]' is flatten and '[?' is filter; quoted forms
//   are closed by the first unescaped delimiter (a backslash keeps the next character); whitespace is skipped;
//   '=' alone and every other character is rejected; every token carries the byte offset of its first character.
pub type Cs = Seq<(usize, char)>;       // remaining input as (byte offset, character)

pub open spec fn is_ident_start(c: char) -> bool { ('a' <= c && c <= 'z') || ('A' <= c && c <= 'Z') || c == '_' }
pub open spec fn is_ident_char(c: char) -> bool { is_ident_start(c) || ('0' <= c && c <= '9') }
pub open spec fn is_digit(c: char) -> bool { '0' <= c && c <= '9' }
pub open spec fn is_ws(c: char) -> bool { c == ' ' || c == '\n' || c == '\t' || c == '\r' }

// maximal run of characters satisfying p
pub open spec fn run_len(cs: Cs, p: spec_fn(char) -> bool) -> nat
    decreases cs.len()
{ if cs.len() > 0 && p(cs[0].1) { 1 + run_len(cs.skip(1), p) } else { 0 } }
pub open spec fn chars_of(cs: Cs, n: nat) -> Seq<char> { Seq::new(n, |i: int| cs[i].1) }

// T2: str::parse::<i32> on a digit string (optionally signed): Some(v) iff it is a decimal numeral within i32
pub uninterp spec fn parse_i32(s: Seq<char>) -> Option<i32>;
// T1: serde_json string / value parsing
pub uninterp spec fn json_parse(s: Seq<char>) -> Result<Variable, String>;
// T2: str::replace (all non-overlapping matches, left to right)
pub uninterp spec fn str_replace(s: Seq<char>, from: Seq<char>, to: Seq<char>) -> Seq<char>;

// text between an opening delimiter (already consumed) and the first unescaped `wrapper`; a backslash and the
// character after it are copied as a pair.  None when the input ends first (unclosed form).
pub open spec fn scan_inside(cs: Cs, wrapper: char, acc: Seq<char>) -> Option<(Seq<char>, Cs)>
    decreases cs.len()
{
    if cs.len() == 0 { None }
    else if cs[0].1 == wrapper { Some((acc, cs.skip(1))) }
    else if cs[0].1 == '\\' {
        if cs.len() >= 2 { scan_inside(cs.skip(2), wrapper, acc.push('\\').push(cs[1].1)) } else { None }
    } else { scan_inside(cs.skip(1), wrapper, acc.push(cs[0].1)) }
}

// what a delimited form denotes, given the text between the delimiters
pub open spec fn quoted_identifier_token(buf: Seq<char>) -> Option<Token> {
    match json_parse(seq!['"'] + buf + seq!['"']) {          // JSON string decoding expands the escapes
        Ok(Variable::String(s)) => Some(Token::QuotedIdentifier(s)),
        _ => None,
    }
}
pub open spec fn raw_string_value(buf: Seq<char>) -> Seq<char> { str_replace(buf, "\\'"@, "'"@) }   // only \' is an escape
pub open spec fn literal_token(buf: Seq<char>) -> Option<Token> {
    match json_parse(str_replace(buf, "\\`"@, "`"@)) {
        Ok(v) => Some(Token::Literal(Rcvar::new(v))),
        Err(_) => None,
    }
}

// one token from non-empty input whose first character is not whitespace: (token, remaining input)
pub open spec fn lex_one(cs: Cs) -> Option<(Token, Cs)>
    recommends cs.len() > 0
{
    let c = cs[0].1;
    let r = cs.skip(1);
    let nx = if r.len() > 0 { Some(r[0].1) } else { None };
    if is_ident_start(c) {
        let n = run_len(r, |c: char| is_ident_char(c));
        Some((Token::Identifier(ident_string(seq![c] + chars_of(r, n))), r.skip(n as int)))
    } else if c == '.' { Some((Token::Dot, r)) }
    else if c == '*' { Some((Token::Star, r)) }
    else if c == '@' { Some((Token::At, r)) }
    else if c == ']' { Some((Token::Rbracket, r)) }
    else if c == '{' { Some((Token::Lbrace, r)) }
    else if c == '}' { Some((Token::Rbrace, r)) }
    else if c == '(' { Some((Token::Lparen, r)) }
    else if c == ')' { Some((Token::Rparen, r)) }
    else if c == ',' { Some((Token::Comma, r)) }
    else if c == ':' { Some((Token::Colon, r)) }
    else if c == '[' { if nx == Some(']') { Some((Token::Flatten, r.skip(1))) } else if nx == Some('?') { Some((Token::Filter, r.skip(1))) } else { Some((Token::Lbracket, r)) } }
    else if c == '|' { if nx == Some('|') { Some((Token::Or, r.skip(1))) } else { Some((Token::Pipe, r)) } }
    else if c == '&' { if nx == Some('&') { Some((Token::And, r.skip(1))) } else { Some((Token::Ampersand, r)) } }
    else if c == '>' { if nx == Some('=') { Some((Token::Gte, r.skip(1))) } else { Some((Token::Gt, r)) } }
    else if c == '<' { if nx == Some('=') { Some((Token::Lte, r.skip(1))) } else { Some((Token::Lt, r)) } }
    else if c == '!' { if nx == Some('=') { Some((Token::Ne, r.skip(1))) } else { Some((Token::Not, r)) } }
    else if c == '=' { if nx == Some('=') { Some((Token::Eq, r.skip(1))) } else { None } }
    else if is_digit(c) {
        let n = run_len(r, |c: char| is_digit(c));
        match parse_i32(seq![c] + chars_of(r, n)) { Some(v) => Some((Token::Number(v), r.skip(n as int))), None => None }
    } else if c == '-' {
        if r.len() > 0 && '1' <= r[0].1 && r[0].1 <= '9' {                   // '-' must be followed by 1-9
            let r2 = r.skip(1);
            let n = run_len(r2, |c: char| is_digit(c));
            match parse_i32(seq![r[0].1] + chars_of(r2, n)) {
                Some(v) => if v >= 0 { Some((Token::Number((-v) as i32), r2.skip(n as int))) } else { None },
                None => None }
        } else { None }
    } else if c == '"' {
        match scan_inside(r, '"', Seq::empty()) { Some((buf, r2)) => match quoted_identifier_token(buf) { Some(t) => Some((t, r2)), None => None }, None => None }
    } else if c == '\'' {
        match scan_inside(r, '\'', Seq::empty()) { Some((buf, r2)) => Some((Token::Literal(Rcvar::new(Variable::String(ident_string(raw_string_value(buf))))), r2)), None => None }
    } else if c == '`' {
        match scan_inside(r, '`', Seq::empty()) { Some((buf, r2)) => match literal_token(buf) { Some(t) => Some((t, r2)), None => None }, None => None }
    } else { None }
}
pub uninterp spec fn ident_string(s: Seq<char>) -> String;       // the String with these characters
#[verifier::external_body]
pub broadcast proof fn axiom_ident_string(s: Seq<char>) ensures #[trigger] ident_string(s)@ == s { }
#[verifier::external_body]
pub proof fn axiom_string_ext(a: String, b: String) requires a@ == b@ ensures a == b { }

/// the whole token sequence, accumulator style; `end` is the byte length of the expression (position of Eof)
pub open spec fn lex_acc(cs: Cs, end: usize, acc: Seq<(usize, Token)>) -> Option<Seq<(usize, Token)>>
    decreases cs.len()
{
    if cs.len() == 0 { Some(acc.push((end, Token::Eof))) }
    else if is_ws(cs[0].1) { lex_acc(cs.skip(1), end, acc) }
    else {
        match lex_one(cs) {
            Some((t, rest)) => if rest.len() < cs.len() { lex_acc(rest, end, acc.push((cs[0].0, t))) } else { None },
            None => None,
        }
    }
}

// T2: str::char_indices yields each character with its byte offset (strictly increasing, on character boundaries,
// below len()); str::len() is the byte length
pub uninterp spec fn indexed(expr: Seq<char>) -> Cs;
pub uninterp spec fn byte_len(s: Seq<char>) -> usize;
/// the token sequence of an expression text, None when it violates the lexical rules
pub open spec fn lex(expr: Seq<char>) -> Option<Seq<(usize, Token)>> { lex_acc(indexed(expr), byte_len(expr), Seq::empty()) }
