// ---- oracle, written from the property statement (JMESPath slice rule == Python list[start:stop:step])
pub open spec fn spec_adjust(len: int, e: int, step: int) -> int {
    if e < 0 {
        if e + len >= 0 { e + len } else if step < 0 { -1 } else { 0 }
    } else if e < len { e } else if step < 0 { len - 1 } else { len }
}
pub open spec fn spec_start(len: int, start: Option<i32>, step: int) -> int {
    match start { Some(s) => spec_adjust(len, s as int, step), None => if step < 0 { len - 1 } else { 0 } }
}
pub open spec fn spec_stop(len: int, stop: Option<i32>, step: int) -> int {
    match stop { Some(s) => spec_adjust(len, s as int, step), None => if step < 0 { -1 } else { len } }
}
// sel(k): index of the k-th selected element; in_range: membership of position k in range(a, b, step)
#[verifier::opaque]
pub open spec fn sel(a: int, step: int, k: int) -> int { a + k * step }
pub open spec fn in_range(a: int, b: int, step: int, k: int) -> bool {
    k >= 0 && if step > 0 { sel(a, step, k) < b } else { sel(a, step, k) > b }
}
pub open spec fn elem_ok(array: Seq<Rcvar>, result: Seq<Rcvar>, a: int, b: int, step: int, k: int) -> bool {
    in_range(a, b, step, k) && 0 <= sel(a, step, k) < array.len() && 0 <= k < result.len() && result[k] == array[sel(a, step, k)]
}
/// The whole slice rule: `result` is exactly [array[a + k*step] | k = 0.., while in range], in order.
pub open spec fn slice_rule(array: Seq<Rcvar>, start: Option<i32>, stop: Option<i32>, step: int, result: Seq<Rcvar>) -> bool {
    let len = array.len() as int;
    let a = spec_start(len, start, step);
    let b = spec_stop(len, stop, step);
    &&& len == 0 ==> result.len() == 0
    &&& len > 0 ==> forall|k: int| 0 <= k < result.len() ==> #[trigger] elem_ok(array, result, a, b, step, k)
    &&& len > 0 ==> !in_range(a, b, step, result.len() as int)
}
proof fn lemma_sel_step(a: int, step: int, k: int)
    ensures sel(a, step, k + 1) == sel(a, step, k) + step, sel(a, step, 0) == a
{
    reveal(sel);
    assert(0 * step == 0) by(nonlinear_arith);
    assert((k + 1) * step == k * step + step) by(nonlinear_arith);
}
proof fn lemma_sel_mono(a: int, step: int, k: int, j: int)
    requires 0 <= k <= j
    ensures step > 0 ==> sel(a, step, k) <= sel(a, step, j),
            step < 0 ==> sel(a, step, k) >= sel(a, step, j),
{
    reveal(sel);
    assert(step > 0 ==> k * step <= j * step) by(nonlinear_arith) requires 0 <= k <= j;
    assert(step < 0 ==> k * step >= j * step) by(nonlinear_arith) requires 0 <= k <= j;
}
// Sanity of the oracle itself: the rule determines the result (length and every element).
proof fn lemma_slice_rule_functional(array: Seq<Rcvar>, start: Option<i32>, stop: Option<i32>, step: int, r1: Seq<Rcvar>, r2: Seq<Rcvar>)
    requires step != 0, slice_rule(array, start, stop, step, r1), slice_rule(array, start, stop, step, r2)
    ensures r1 == r2
{
    let len = array.len() as int;
    if len > 0 {
        let a = spec_start(len, start, step);
        let b = spec_stop(len, stop, step);
        if r1.len() < r2.len() {
            assert(elem_ok(array, r2, a, b, step, r1.len() as int));
        } else if r2.len() < r1.len() {
            assert(elem_ok(array, r1, a, b, step, r2.len() as int));
        }
        assert forall|k: int| 0 <= k < r1.len() implies r1[k] == r2[k] by {
            assert(elem_ok(array, r1, a, b, step, k));
            assert(elem_ok(array, r2, a, b, step, k));
        }
        assert(r1 =~= r2);
    } else {
        assert(r1 =~= r2);
    }
}
pub open spec fn slice_pre(len: int, step: int) -> bool { step != 0 && len <= i32::MAX }
// cover: the precondition of `slice` is satisfiable (vacuity guard)
proof fn cover_slice_requires() {
    assert(slice_pre(5, -3));
}

