// ---- shared machinery for the 26 builtins
pub open spec fn argv(args: Seq<Rcvar>, i: int) -> Variable { *args[i] }
// what validation + the proved signature table give a function body: arity and per-position types
pub open spec fn pos_ok(st: SpecT, v: Variable) -> bool { if st is Any { true } else { spec_ok(st, v) } }
pub open spec fn spec_param(ss: SpecSig, k: int) -> SpecT { if 0 <= k < ss.params.len() { ss.params[k] } else { ss.variadic->Some_0 } }
pub proof fn lemma_accepts(sig: Signature, ss: SpecSig, args: Seq<Rcvar>)
    requires sig_conforms(sig, ss), sig_accepts(sig, args),
    ensures
        if ss.variadic is Some { args.len() >= ss.params.len() } else { args.len() == ss.params.len() },
        forall|k: int| 0 <= k < args.len() ==> pos_ok(spec_param(ss, k), *#[trigger] args[k]),
{
    lemma_all_args(sig, args, args.len());
    assert forall|k: int| 0 <= k < args.len() implies pos_ok(spec_param(ss, k), *#[trigger] args[k]) by {
        assert(type_ok(param_type(sig, k), *args[k]));
        if k < ss.params.len() { assert(conforms(sig.inputs@[k], ss.params[k])); }
    }
}
// a failure of validation is a runtime error located at the call (C12) and only happens when the
// arguments do not satisfy the signature (C06)
pub open spec fn runtime_err_at(e: JmespathError, expr: Seq<char>, offset: usize) -> bool {
    e.reason is Runtime && e.expression@ == expr && e.offset == offset
}
#[verifier::external_body]
pub fn idiom_number_from_usize(n: usize) -> (r: Number) ensures r == num_of_usize(n) { unimplemented!() }
// T2: f64 leaf operations (uninterpreted; finiteness facts are IEEE-754)
pub trait F64Idioms {
    fn idiom_abs(self) -> f64;
    fn idiom_ceil(self) -> f64;
    fn idiom_floor(self) -> f64;
    fn idiom_trunc(self) -> f64;
    fn idiom_round(self) -> f64;
}
impl F64Idioms for f64 {
    #[verifier::external_body]
    fn idiom_abs(self) -> (r: f64) ensures r == f64_abs(self), f64_finite(self) ==> f64_finite(r) { self.abs() }
    #[verifier::external_body]
    fn idiom_ceil(self) -> (r: f64) ensures r == f64_ceil(self), f64_finite(self) ==> f64_finite(r) { self.ceil() }
    #[verifier::external_body]
    fn idiom_floor(self) -> (r: f64) ensures r == f64_floor(self), f64_finite(self) ==> f64_finite(r) { self.floor() }
    // the other members of the rounding family, each its own function: a body that swaps one for another cannot be
    // proved to compute the specified one
    #[verifier::external_body]
    fn idiom_trunc(self) -> (r: f64) ensures r == f64_trunc(self), f64_finite(self) ==> f64_finite(r) { self.trunc() }
    #[verifier::external_body]
    fn idiom_round(self) -> (r: f64) ensures r == f64_round(self), f64_finite(self) ==> f64_finite(r) { self.round() }
}
pub uninterp spec fn f64_add(a: f64, b: f64) -> f64;
pub uninterp spec fn f64_div(a: f64, b: f64) -> f64;
pub uninterp spec fn f64_of_usize(n: usize) -> f64;
pub uninterp spec fn f64_zero() -> f64;
#[verifier::external_body]
pub fn idiom_f64_add(a: f64, b: f64) -> (r: f64) ensures r == f64_add(a, b) { a + b }
#[verifier::external_body]
pub fn idiom_f64_div(a: f64, b: f64) -> (r: f64) ensures r == f64_div(a, b) { a / b }
#[verifier::external_body]
pub fn idiom_usize_to_f64(n: usize) -> (r: f64) ensures r == f64_of_usize(n) { n as f64 }
#[verifier::external_body]
pub fn idiom_f64_zero() -> (r: f64) ensures r == f64_zero() { 0.0 }
// sum of the first n numbers of an array, left to right, starting from 0.0
pub open spec fn sum_spec(s: Seq<Rcvar>, n: nat) -> f64
    decreases n
{ if n == 0 || n > s.len() { f64_zero() } else { f64_add(sum_spec(s, (n - 1) as nat), num_f64((*s[n - 1])->Number_0)) } }

// ---- strings (T2): vstd views a String as its sequence of chars (code points)
pub uninterp spec fn str_contains(hay: Seq<char>, needle: Seq<char>) -> bool;
pub uninterp spec fn str_starts_with(s: Seq<char>, p: Seq<char>) -> bool;
pub uninterp spec fn str_ends_with(s: Seq<char>, p: Seq<char>) -> bool;
// `.len()` of the three containers `length` looks at: elements, members, and - for a String - BYTES (uninterpreted:
// a body that measures a string with `len()` where the specification counts code points cannot be proved)
pub uninterp spec fn str_byte_len(s: Seq<char>) -> usize;
pub trait LenOf { spec fn len_spec(&self) -> usize; fn idiom_len(&self) -> (r: usize) ensures r == self.len_spec(); }
impl LenOf for Vec<Rcvar> { open spec fn len_spec(&self) -> usize { self@.len() as usize }
    #[verifier::external_body] fn idiom_len(&self) -> (r: usize) { self.len() } }
impl LenOf for BTreeMap<String, Rcvar> { open spec fn len_spec(&self) -> usize { obj_view(*self).dom().len() as usize }
    #[verifier::external_body] fn idiom_len(&self) -> (r: usize) { self.len() } }
impl LenOf for String { open spec fn len_spec(&self) -> usize { str_byte_len(self@) }
    #[verifier::external_body] fn idiom_len(&self) -> (r: usize) { self.len() } }
pub fn idiom_len_of<T: LenOf>(x: &T) -> (r: usize) ensures r == x.len_spec() { x.idiom_len() }
#[verifier::external_body]
pub fn idiom_str_contains(subj: &String, s: &String) -> (r: bool) ensures r == str_contains(subj@, s@) { subj.contains(s) }
#[verifier::external_body]
pub fn idiom_str_starts_with(subj: &String, s: &String) -> (r: bool) ensures r == str_starts_with(subj@, s@) { subj.starts_with(s) }
#[verifier::external_body]
pub fn idiom_str_ends_with(subj: &String, s: &String) -> (r: bool) ensures r == str_ends_with(subj@, s@) { subj.ends_with(s) }
#[verifier::external_body]
pub fn idiom_chars_count(s: &String) -> (r: usize) ensures r == s@.len() { s.chars().count() }
#[verifier::external_body]
pub fn idiom_chars_rev_collect(s: &String) -> (r: String) ensures r@ == s@.reverse() { s.chars().rev().collect() }
#[verifier::external_body]
pub fn idiom_vec_contains(a: &Vec<Rcvar>, needle: &Rcvar) -> (r: bool)
    ensures r == exists|i: int| 0 <= i < a@.len() && var_eq(*#[trigger] a@[i], **needle)
{ a.contains(needle) }
// BTreeMap iteration (T2): keys ascending; values in the same order; one entry per key
#[verifier::external_body]
pub proof fn axiom_sorted_keys_values(m: Map<Seq<char>, Rcvar>)
    requires m.dom().finite(),
    ensures sorted_keys(m).len() == m.dom().len(), sorted_values(m).len() == m.dom().len(),
        forall|i: int| 0 <= i < sorted_keys(m).len() ==> m.dom().contains(#[trigger] sorted_keys(m)[i]) && sorted_values(m)[i] == m[sorted_keys(m)[i]],
        forall|i: int, j: int| 0 <= i < j < sorted_keys(m).len() ==> sorted_keys(m)[i] != sorted_keys(m)[j],
{ }
#[verifier::external_body]
pub fn idiom_keys_as_strings(object: &BTreeMap<String, Rcvar>) -> (r: Vec<Rcvar>)
    ensures r@.len() == sorted_keys(obj_view(*object)).len(),
        forall|i: int| 0 <= i < r@.len() ==> (*#[trigger] r@[i]) is String && (*r@[i])->String_0@ == sorted_keys(obj_view(*object))[i],
{ object.keys().map(|k| Rcvar::new(Variable::String((*k).clone()))).collect::<Vec<Rcvar>>() }
// merge: right-biased union
#[verifier::external_body]
pub fn idiom_btree_extend(result: &mut BTreeMap<String, Rcvar>, m: BTreeMap<String, Rcvar>)
    ensures obj_view(*final(result)) == obj_view(*old(result)).union_prefer_right(obj_view(m))
{ result.extend(m) }
#[verifier::external_body]
pub fn idiom_btree_clone(m: &BTreeMap<String, Rcvar>) -> (r: BTreeMap<String, Rcvar>)
    ensures obj_view(r) == obj_view(*m)
{ m.clone() }
pub open spec fn merge_spec(args: Seq<Rcvar>, n: nat) -> Map<Seq<char>, Rcvar>
    decreases n
{ if n == 0 || n > args.len() { Map::empty() } else { merge_spec(args, (n - 1) as nat).union_prefer_right(obj_view((*args[n - 1])->Object_0)) } }
pub uninterp spec fn json_text(v: Variable) -> Seq<char>;      // serde_json::to_string of the value (T1)
#[verifier::external_body]
pub fn idiom_var_to_string(v: &Rcvar) -> (r: String) ensures r@ == json_text(**v) { v.to_string() }
#[verifier::external_body]
pub fn idiom_vec_reverse(v: &mut Vec<Rcvar>) ensures final(v)@ == old(v)@.reverse() { v.reverse() }
impl Variable {
    #[verifier::external_body]
    pub fn from_json(s: &str) -> (r: Result<Variable, String>) { unimplemented!() }
}
// T2: Vec<Rcvar>::clone clones element-wise and an Rc/Arc clone is the same value (vstd's `cloned` relation
// does not expose the equality for Rc elements)
#[verifier::external_body]
pub proof fn lemma_vec_rc_clone(src: Vec<Rcvar>, dst: Vec<Rcvar>)
    requires dst@.len() == src@.len(), forall|i: int| 0 <= i < src@.len() ==> cloned::<Rcvar>(#[trigger] src@[i], dst@[i]),
    ensures dst@ == src@,
{ }
// ---- sorting (T2): <[T]>::sort / sort_by are stable; sort_unstable* are not (weaker contract, so a switch to them
// fails the stability clause instead of being unsupported)
pub open spec fn is_perm(p: Seq<int>, n: nat) -> bool {
    p.len() == n && (forall|i: int| 0 <= i < n ==> 0 <= #[trigger] p[i] < n) && (forall|i: int, j: int| 0 <= i < j < n ==> p[i] != p[j])
}
/// `out` is `inp` rearranged by permutation p, ascending by `key`, and (if `stable`) ties keep their input order
pub open spec fn sorted_by_keys(inp: Seq<Rcvar>, keys: Seq<Rcvar>, out: Seq<Rcvar>, p: Seq<int>, stable: bool) -> bool {
    &&& keys.len() == inp.len() && out.len() == inp.len() && is_perm(p, inp.len())
    &&& forall|i: int| 0 <= i < out.len() ==> out[i] == inp[#[trigger] p[i]]
    &&& forall|i: int, j: int| 0 <= i < j < out.len() ==> var_cmp(*keys[#[trigger] p[i]], *keys[#[trigger] p[j]]) != Ordering::Greater
    &&& stable ==> forall|i: int, j: int| 0 <= i < j < out.len() && var_cmp(*keys[#[trigger] p[i]], *keys[#[trigger] p[j]]) == Ordering::Equal ==> p[i] < p[j]
}
#[verifier::external_body]
pub fn idiom_sort(values: &mut Vec<Rcvar>)
    ensures exists|p: Seq<int>| sorted_by_keys(old(values)@, old(values)@, final(values)@, p, true)
{ values.sort() }
#[verifier::external_body]
pub fn idiom_sort_unstable(values: &mut Vec<Rcvar>)
    ensures exists|p: Seq<int>| sorted_by_keys(old(values)@, old(values)@, final(values)@, p, false)
{ values.sort_unstable() }
pub open spec fn firsts(m: Seq<(Rcvar, Rcvar)>) -> Seq<Rcvar> { Seq::new(m.len(), |i: int| m[i].0) }
pub open spec fn seconds(m: Seq<(Rcvar, Rcvar)>) -> Seq<Rcvar> { Seq::new(m.len(), |i: int| m[i].1) }
#[verifier::external_body]
pub fn idiom_sort_by_second(mapped: &mut Vec<(Rcvar, Rcvar)>)
    ensures final(mapped)@.len() == old(mapped)@.len(),
        exists|p: Seq<int>| sorted_by_keys(firsts(old(mapped)@), seconds(old(mapped)@), firsts(final(mapped)@), p, true)
{ mapped.sort_by(|a, b| a.1.cmp(&b.1)) }
#[verifier::external_body]
pub fn idiom_sort_unstable_by_second(mapped: &mut Vec<(Rcvar, Rcvar)>)
    ensures final(mapped)@.len() == old(mapped)@.len(),
        exists|p: Seq<int>| sorted_by_keys(firsts(old(mapped)@), seconds(old(mapped)@), firsts(final(mapped)@), p, false)
{ mapped.sort_unstable_by(|a, b| a.1.cmp(&b.1)) }
#[verifier::external_body]
pub fn idiom_collect_firsts(mapped: &Vec<(Rcvar, Rcvar)>) -> (r: Vec<Rcvar>)
    ensures r@ == firsts(mapped@)
{ mapped.iter().map(|tuple| tuple.0.clone()).collect() }
// ---- sum / fold idioms
pub trait VecRcvarIdioms {
    fn idiom_sum_numbers(&self) -> f64;
}
impl VecRcvarIdioms for Vec<Rcvar> {
    #[verifier::external_body]
    fn idiom_sum_numbers(&self) -> (r: f64)
        ensures (forall|i: int| 0 <= i < self@.len() ==> (*#[trigger] self@[i]) is Number) ==> r == sum_spec(self@, self@.len())
    { self.iter().fold(0.0, |acc, item| acc + item.as_number().unwrap_or(0.0)) }
}
#[verifier::external_body]
pub fn idiom_fold_skip1<F: FnMut(Rcvar, &Rcvar) -> Rcvar>(values: &Vec<Rcvar>, init: Rcvar, f: F) -> (r: Rcvar)
    requires forall|a: Rcvar, i: int| 0 <= i < values@.len() ==> f.requires((a, &values@[i])),
    ensures (forall|a: Rcvar, b: &Rcvar, o: Rcvar| f.ensures((a, b), o) ==> o == a || o == *b)
        ==> (r == init || exists|i: int| 1 <= i < values@.len() && r == values@[i]),
{ values.iter().skip(1).fold(init, f) }
// JoinFn, from the function specification: the elements of the array joined with the glue between them, in order
pub open spec fn join_strs(glue: Seq<char>, parts: Seq<Seq<char>>) -> Seq<char>
    decreases parts.len()
{
    if parts.len() == 0 { Seq::empty() }
    else if parts.len() == 1 { parts[0] }
    else { join_strs(glue, parts.drop_last()) + glue + parts.last() }
}
pub open spec fn join_spec(glue: Seq<char>, parts: Seq<Rcvar>) -> Seq<char> {
    join_strs(glue, Seq::new(parts.len(), |i: int| (*parts[i])->String_0@))
}
pub open spec fn strs_view(v: Seq<String>) -> Seq<Seq<char>> { Seq::new(v.len(), |i: int| v[i]@) }
// T2: `iter().map(f).collect::<Result<Vec<String>, _>>()` (one result per element, in order, each produced by f; an
// error from f is returned) and `[String]::join`
#[verifier::external_body]
pub fn idiom_try_map_collect_strings<F: Fn(&Rcvar) -> Result<String, JmespathError>>(values: &Vec<Rcvar>, f: F) -> (r: Result<Vec<String>, JmespathError>)
    requires forall|i: int| 0 <= i < values@.len() ==> f.requires((&values@[i],)),
    ensures
        r matches Ok(out) ==> out@.len() == values@.len() && forall|i: int| 0 <= i < out@.len() ==> f.ensures((&values@[i],), Ok(#[trigger] out@[i])),
        r matches Err(e) ==> exists|i: int| 0 <= i < values@.len() && f.ensures((&values@[i],), Err(e)),
{ values.iter().map(f).collect::<Result<Vec<String>, JmespathError>>() }
#[verifier::external_body]
pub fn idiom_string_ref_to_owned(s: &String) -> (r: String) ensures r@ == s@ { s.to_owned() }
pub trait JoinIdiom { fn idiom_join(&self, glue: &str) -> String; }
impl JoinIdiom for Vec<String> {
    #[verifier::external_body]
    fn idiom_join(&self, glue: &str) -> (r: String) ensures r@ == join_strs(glue@, strs_view(self@)) { self.join(glue) }
}
pub uninterp spec fn fmt_expr_type(t: JmespathType) -> Seq<char>;
#[verifier::external_body]
pub fn idiom_format_expr_type(t: &JmespathType) -> (r: String) ensures r@ == fmt_expr_type(*t) { format!("expression->{}", t) }
#[verifier::external_body]
pub fn idiom_type_ref_to_string(t: &JmespathType) -> (s: String) ensures s@ == display_type(*t) { t.to_string() }
/// keys of a by-function: key i is a result of evaluating the expression reference against element i, and all
/// keys have the type of the first one, which is string or number
pub open spec fn by_keys(rt: &Runtime, ast: Ast, input: Seq<Rcvar>, keys: Seq<Rcvar>) -> bool {
    keys.len() == input.len()
    && (forall|i: int| 0 <= i < input.len() ==> evals(rt, ast, *input[i], *#[trigger] keys[i]))
    && (forall|i: int| 0 <= i < input.len() ==> type_of(*#[trigger] keys[i]) == type_of(*keys[0]))
    && (input.len() > 0 ==> (*keys[0] is String || *keys[0] is Number))
}
// T2: PartialOrd for Rc<T>/Arc<T> delegates to T; `Variable`'s order is var_cmp (unit `eq`)
#[verifier::external_body]
pub fn idiom_rc_gt(a: &Rcvar, b: &Rcvar) -> (r: bool) ensures r == (var_cmp(**a, **b) == Ordering::Greater) { a.gt(b) }
#[verifier::external_body]
pub fn idiom_rc_lt(a: &Rcvar, b: &Rcvar) -> (r: bool) ensures r == (var_cmp(**a, **b) == Ordering::Less) { a.lt(b) }
// T2 order axioms for keys of one type (string: String::cmp is a total order; number: f64::partial_cmp is a total
// order on the finite doubles a Number can hold - Kani harness f64_order_total)
#[verifier::external_body]
pub proof fn axiom_var_cmp_order(a: Variable, b: Variable, c: Variable)
    requires (a is String && b is String && c is String) || (a is Number && b is Number && c is Number),
    ensures
        (var_cmp(a, b) == Ordering::Greater) == (var_cmp(b, a) == Ordering::Less),
        var_cmp(a, b) != Ordering::Greater && var_cmp(b, c) != Ordering::Greater ==> var_cmp(a, c) != Ordering::Greater,
        var_cmp(a, b) != Ordering::Less && var_cmp(b, c) != Ordering::Less ==> var_cmp(a, c) != Ordering::Less,
        var_cmp(a, a) == Ordering::Equal,
{ }
// ---- max / min: std::cmp::max(a, b) keeps a only when a > b; std::cmp::min(a, b) keeps a unless a > b (T2, for Rc<T>
// the comparison is T's, i.e. var_cmp)
pub open spec fn max_spec(a: Rcvar, b: Rcvar) -> Rcvar { if var_cmp(*a, *b) == Ordering::Greater { a } else { b } }
pub open spec fn min_spec(a: Rcvar, b: Rcvar) -> Rcvar { if var_cmp(*a, *b) == Ordering::Greater { b } else { a } }
#[verifier::external_body]
pub fn idiom_max_rcvar(a: Rcvar, b: Rcvar) -> (r: Rcvar) ensures r == max_spec(a, b) { max(a, b) }
#[verifier::external_body]
pub fn idiom_min_rcvar(a: Rcvar, b: Rcvar) -> (r: Rcvar) ensures r == min_spec(a, b) { min(a, b) }
/// left fold of g over values[1..n] starting from values[0]
pub open spec fn fold1(values: Seq<Rcvar>, g: spec_fn(Rcvar, Rcvar) -> Rcvar, n: nat) -> Rcvar
    decreases n
{ if n <= 1 || n > values.len() { values[0] } else { g(fold1(values, g, (n - 1) as nat), values[n - 1]) } }
#[verifier::external_body]
pub fn idiom_fold_skip1_g<F: FnMut(Rcvar, &Rcvar) -> Rcvar>(values: &Vec<Rcvar>, init: Rcvar, f: F, Ghost(g): Ghost<spec_fn(Rcvar, Rcvar) -> Rcvar>) -> (r: Rcvar)
    requires values@.len() >= 1, init == values@[0],
        forall|a: Rcvar, i: int| 0 <= i < values@.len() ==> f.requires((a, &values@[i])),
        forall|a: Rcvar, b: &Rcvar, o: Rcvar| f.ensures((a, b), o) ==> o == g(a, *b),
    ensures r == fold1(values@, g, values@.len()),
{ values.iter().skip(1).fold(init, f) }
pub open spec fn same_kind(s: Seq<Rcvar>) -> bool {
    (forall|i: int| 0 <= i < s.len() ==> (*#[trigger] s[i]) is Number) || (forall|i: int| 0 <= i < s.len() ==> (*#[trigger] s[i]) is String)
}
pub proof fn lemma_fold_max(s: Seq<Rcvar>, n: nat)
    requires 1 <= n <= s.len(), same_kind(s),
    ensures ({ let r = fold1(s, |a: Rcvar, b: Rcvar| max_spec(a, b), n);
        (exists|i: int| 0 <= i < n && r == s[i]) && forall|j: int| 0 <= j < n ==> var_cmp(*#[trigger] s[j], val(&r)) != Ordering::Greater }),
    decreases n
{
    let g = |a: Rcvar, b: Rcvar| max_spec(a, b);
    if n > 1 {
        lemma_fold_max(s, (n - 1) as nat);
        let p = fold1(s, g, (n - 1) as nat);
        let r = fold1(s, g, n);
        let k = choose|i: int| 0 <= i < n - 1 && p == s[i];
        assert(r == max_spec(p, s[n - 1]));
        assert forall|j: int| 0 <= j < n implies var_cmp(*#[trigger] s[j], val(&r)) != Ordering::Greater by {
            axiom_var_cmp_order(argv(s, j), val(&p), argv(s, n - 1)); axiom_var_cmp_order(argv(s, n - 1), val(&p), argv(s, j)); axiom_var_cmp_order(val(&p), argv(s, n - 1), val(&p));
            axiom_var_cmp_order(argv(s, n - 1), argv(s, n - 1), val(&p));
        }
        if r == p { assert(r == s[k]); } else { assert(r == s[n - 1]); }
    } else {
        axiom_var_cmp_order(argv(s, 0), argv(s, 0), argv(s, 0));
    }
}
pub proof fn lemma_fold_min(s: Seq<Rcvar>, n: nat)
    requires 1 <= n <= s.len(), same_kind(s),
    ensures ({ let r = fold1(s, |a: Rcvar, b: Rcvar| min_spec(a, b), n);
        (exists|i: int| 0 <= i < n && r == s[i]) && forall|j: int| 0 <= j < n ==> var_cmp(*#[trigger] s[j], val(&r)) != Ordering::Less }),
    decreases n
{
    let g = |a: Rcvar, b: Rcvar| min_spec(a, b);
    if n > 1 {
        lemma_fold_min(s, (n - 1) as nat);
        let p = fold1(s, g, (n - 1) as nat);
        let r = fold1(s, g, n);
        let k = choose|i: int| 0 <= i < n - 1 && p == s[i];
        assert(r == min_spec(p, s[n - 1]));
        assert forall|j: int| 0 <= j < n implies var_cmp(*#[trigger] s[j], val(&r)) != Ordering::Less by {
            axiom_var_cmp_order(argv(s, j), val(&p), argv(s, n - 1)); axiom_var_cmp_order(argv(s, n - 1), val(&p), argv(s, j)); axiom_var_cmp_order(val(&p), argv(s, n - 1), val(&p));
            axiom_var_cmp_order(argv(s, n - 1), argv(s, n - 1), val(&p)); axiom_var_cmp_order(val(&p), argv(s, n - 1), argv(s, j));
        }
        if r == p { assert(r == s[k]); } else { assert(r == s[n - 1]); }
    } else {
        axiom_var_cmp_order(argv(s, 0), argv(s, 0), argv(s, 0));
    }
}
