// ---- C15: over any history of register / deregister operations the binding of a name is its most recent
// surviving registration (induction over the history; uses only the registry-view contracts above)
pub enum Op { Register(Seq<char>, Box<dyn Function>), Deregister(Seq<char>) }
pub open spec fn apply_ops(init: Map<Seq<char>, Box<dyn Function>>, ops: Seq<Op>, n: nat) -> Map<Seq<char>, Box<dyn Function>>
    decreases n
{
    if n == 0 || n > ops.len() { init } else {
        let m = apply_ops(init, ops, (n - 1) as nat);
        match ops[n - 1] { Op::Register(k, f) => m.insert(k, f), Op::Deregister(k) => m.remove(k) }
    }
}
// index of the last operation on `name` among the first n, or -1
pub open spec fn last_op_on(ops: Seq<Op>, name: Seq<char>, n: nat) -> int
    decreases n
{
    if n == 0 || n > ops.len() { -1 } else {
        let hit = match ops[n - 1] { Op::Register(k, _) => k == name, Op::Deregister(k) => k == name };
        if hit { n - 1 } else { last_op_on(ops, name, (n - 1) as nat) }
    }
}
//# most-recent-registration-wins [C15]
pub proof fn lemma_history(init: Map<Seq<char>, Box<dyn Function>>, ops: Seq<Op>, name: Seq<char>, n: nat)
    requires n <= ops.len(),
    ensures ({
        let i = last_op_on(ops, name, n);
        let m = apply_ops(init, ops, n);
        &&& i < 0 ==> (m.dom().contains(name) == init.dom().contains(name) && (init.dom().contains(name) ==> m[name] == init[name]))
        &&& i >= 0 ==> (i < n && match ops[i] {
                Op::Register(k, f) => m.dom().contains(name) && m[name] == f,      // the most recent registration still registered
                Op::Deregister(k) => !m.dom().contains(name),                        // removed and not re-registered => unknown function
            })
    }),
    decreases n
{
    if n > 0 { lemma_history(init, ops, name, (n - 1) as nat); }
}
// a fresh runtime has none
pub proof fn lemma_fresh(name: Seq<char>)
    ensures !Map::<Seq<char>, Box<dyn Function>>::empty().dom().contains(name)
{ }
