use vstd::prelude::*;
use std::rc::Rc;
verus! {
pub enum Variable { Null, String(String), Bool(bool), Array(Vec<Rcvar>), Expref(u8) }
pub type Rcvar = Rc<Variable>;
impl Variable {
    pub fn as_array(&self) -> (r: Option<&Vec<Rcvar>>)
        ensures match *self { Variable::Array(a) => r == Some(&a), _ => r is None }
    { match self { Variable::Array(array) => Some(array), _ => None } }
    pub fn is_array(&self) -> (r: bool) ensures r == (*self is Array) { self.as_array().is_some() }
    pub fn is_null(&self) -> (r: bool) ensures r == (*self is Null) { match self { Variable::Null => true, _ => false } }
    pub fn is_string(&self) -> (r: bool) ensures r == (*self is String) { match self { Variable::String(_) => true, _ => false } }
}
pub enum ArgumentType { Any, Null, String, Array, TypedArray(Box<ArgumentType>), Union(Vec<ArgumentType>) }

// ---- trusted idiom helpers (bodies are the original expressions) ----
#[verifier::external_body]
fn idiom_all<T, F: Fn(&T) -> bool>(s: &Vec<T>, f: F) -> (r: bool)
    requires forall|i: int| 0 <= i < s@.len() ==> f.requires((&s@[i],)),
    ensures
        r ==> forall|i: int| 0 <= i < s@.len() ==> f.ensures((&s@[i],), true),
        !r ==> exists|i: int| 0 <= i < s@.len() && f.ensures((&s@[i],), false),
{ s.iter().all(f) }
#[verifier::external_body]
fn idiom_any<T, F: Fn(&T) -> bool>(s: &Vec<T>, f: F) -> (r: bool)
    requires forall|i: int| 0 <= i < s@.len() ==> f.requires((&s@[i],)),
    ensures
        r ==> exists|i: int| 0 <= i < s@.len() && f.ensures((&s@[i],), true),
        !r ==> forall|i: int| 0 <= i < s@.len() ==> f.ensures((&s@[i],), false),
{ s.iter().any(f) }

pub open spec fn val(r: &Rcvar) -> Variable { **r }
// ---- spec, from the property statement ----
pub open spec fn type_ok(t: ArgumentType, v: Variable) -> bool
    decreases t, 0int
{
    match t {
        ArgumentType::Any => true,
        ArgumentType::Null => v is Null,
        ArgumentType::String => v is String,
        ArgumentType::Array => v is Array,
        ArgumentType::TypedArray(inner) => v is Array && all_ok(*inner, v->Array_0@, v->Array_0@.len()),
        ArgumentType::Union(types) => some_ok(types@, v, types@.len()),
    }
}
pub open spec fn all_ok(t: ArgumentType, s: Seq<Rcvar>, n: nat) -> bool
    decreases t, n
{ if n == 0 { true } else { type_ok(t, *s[n - 1]) && all_ok(t, s, (n - 1) as nat) } }
pub open spec fn some_ok(ts: Seq<ArgumentType>, v: Variable, n: nat) -> bool
    decreases ts, n
{ if n == 0 || n > ts.len() { false } else { type_ok(ts[n - 1], v) || some_ok(ts, v, (n - 1) as nat) } }

impl ArgumentType {
    #[verifier::exec_allows_no_decreases_clause]
    pub fn is_valid(&self, value: &Rcvar) -> (r: bool)
        ensures r == type_ok(*self, **value)
    {
        use self::ArgumentType::*;
        match *self {
            Any => true,
            Null if value.is_null() => true,
            String if value.is_string() => true,
            Array if value.is_array() => true,
            TypedArray(ref t) if value.is_array() => {
                if let Some(array) = value.as_array() {
                    let r = idiom_all(array, |v: &Rcvar| -> (b: bool) ensures b == type_ok(**t, **v) { t.is_valid(v) });
                    proof { lemma_all(**t, array@, array@.len(), r); }
                    r
                } else {
                    false
                }
            }
            Union(ref types) => {
                let r = idiom_any(types, |t: &ArgumentType| -> (b: bool) ensures b == type_ok(*t, **value) { t.is_valid(value) });
                proof { lemma_some(types@, val(value), types@.len(), r); }
                r
            }
            _ => false,
        }
    }
}
proof fn lemma_all(t: ArgumentType, s: Seq<Rcvar>, n: nat, r: bool)
    requires n <= s.len(),
        r ==> forall|i: int| 0 <= i < s.len() ==> type_ok(t, *s[i]),
        !r ==> exists|i: int| 0 <= i < s.len() && !type_ok(t, *s[i]),
    ensures n == s.len() ==> r == all_ok(t, s, n),
        (forall|i: int| 0 <= i < n ==> type_ok(t, *s[i])) == all_ok(t, s, n),
    decreases n
{
    if n > 0 { lemma_all(t, s, (n - 1) as nat, r); }
}
proof fn lemma_some(ts: Seq<ArgumentType>, v: Variable, n: nat, r: bool)
    requires n <= ts.len(),
        r ==> exists|i: int| 0 <= i < ts.len() && type_ok(ts[i], v),
        !r ==> forall|i: int| 0 <= i < ts.len() ==> !type_ok(ts[i], v),
    ensures n == ts.len() ==> r == some_ok(ts, v, n),
        (exists|i: int| 0 <= i < n && type_ok(ts[i], v)) == some_ok(ts, v, n),
    decreases n
{
    if n > 0 { lemma_some(ts, v, (n - 1) as nat, r); }
}
} // verus!
fn main() {}
