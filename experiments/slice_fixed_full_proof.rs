use vstd::prelude::*;
use std::rc::Rc;
verus! {

#[verifier::external_body]
pub struct Variable { _p: u8 }
pub type Rcvar = Rc<Variable>;

pub open spec fn spec_adjust(len: int, e: int, step: int) -> int {
    if e < 0 {
        if e + len >= 0 { e + len } else if step < 0 { -1 } else { 0 }
    } else if e < len { e } else if step < 0 { len - 1 } else { len }
}
pub open spec fn spec_start(len: int, start: Option<i32>, step: int) -> int {
    match start { Some(s) => spec_adjust(len, s as int, step), None => if step < 0 { len - 1 } else { 0 } }
}
pub open spec fn spec_stop(len: int, stop: Option<i32>, step: int) -> int {
    match stop { Some(s) => spec_adjust(len, s as int, step), None => if step < 0 { -1 } else { len } }
}
// selected(k): k-th selected index; in_range: Python's range(a,b,step) membership by position
#[verifier::opaque]
pub open spec fn sel(a: int, step: int, k: int) -> int { a + k * step }
pub open spec fn in_range(a: int, b: int, step: int, k: int) -> bool {
    k >= 0 && if step > 0 { sel(a, step, k) < b } else { sel(a, step, k) > b }
}

pub open spec fn elem_ok(array: Seq<Rcvar>, result: Seq<Rcvar>, a: int, b: int, step: int, k: int) -> bool {
    in_range(a, b, step, k) && 0 <= sel(a, step, k) < array.len() && 0 <= k < result.len() && result[k] == array[sel(a, step, k)]
}
proof fn lemma_sel_step(a: int, step: int, k: int)
    ensures sel(a, step, k + 1) == sel(a, step, k) + step, sel(a, step, 0) == a
{
    reveal(sel);
    assert(0 * step == 0) by(nonlinear_arith);
    assert((k + 1) * step == k * step + step) by(nonlinear_arith);
}
proof fn lemma_sel_mono(a: int, step: int, k: int, j: int)
    requires 0 <= k <= j
    ensures step > 0 ==> sel(a, step, k) <= sel(a, step, j),
            step < 0 ==> sel(a, step, k) >= sel(a, step, j),
{
    reveal(sel);
    assert(step > 0 ==> k * step <= j * step) by(nonlinear_arith) requires 0 <= k <= j;
    assert(step < 0 ==> k * step >= j * step) by(nonlinear_arith) requires 0 <= k <= j;
}

fn slice(array: &[Rcvar], start: Option<i32>, stop: Option<i32>, step: i32) -> (result: Vec<Rcvar>)
    requires step != 0, array.len() <= i32::MAX,
    ensures
        ({
            let len = array.len() as int;
            let a = spec_start(len, start, step as int);
            let b = spec_stop(len, stop, step as int);
            &&& len == 0 ==> result.len() == 0
            &&& len > 0 ==> forall|k: int| 0 <= k < result.len() ==> #[trigger] elem_ok(array@, result@, a, b, step as int, k)
            &&& len > 0 ==> !in_range(a, b, step as int, result.len() as int)
        }),
{
    let mut result = vec![];
    let len = array.len() as i32;
    if len == 0 {
        return result;
    }
    let a: i32 = match start {
        Some(starting_index) => adjust_slice_endpoint(len, starting_index, step),
        _ if step < 0 => len - 1,
        _ => 0,
    };
    let b: i32 = match stop {
        Some(ending_index) => adjust_slice_endpoint(len, ending_index, step),
        _ if step < 0 => -1,
        _ => len,
    };
    let mut i = a;
    proof { lemma_sel_step(a as int, step as int, 0); }
    if step > 0 {
        while i < b 
            invariant_except_break
                i as int == sel(a as int, step as int, result.len() as int), 0 <= i,
            invariant
                step > 0, len == array.len(), 0 <= a <= len, 0 <= b <= len,
                a == spec_start(len as int, start, step as int), b == spec_stop(len as int, stop, step as int),
                forall|k: int| 0 <= k < result.len() ==> #[trigger] elem_ok(array@, result@, a as int, b as int, step as int, k),
            ensures
                !in_range(a as int, b as int, step as int, result.len() as int),
            decreases (if i < b { b - i } else { 0 }),
        {
            let ghost old_r = result@;
            proof { lemma_sel_step(a as int, step as int, result.len() as int); }
            result.push(array[i as usize].clone());
            proof {
                assert forall|k: int| 0 <= k < result.len() implies #[trigger] elem_ok(array@, result@, a as int, b as int, step as int, k) by {
                    if k < old_r.len() { assert(elem_ok(array@, old_r, a as int, b as int, step as int, k)); assert(result[k] == old_r[k]); } else { assert(k == old_r.len()); }
                }
            }
            i = match i.checked_add(step) { Some(n) => n, None => break };
        }
    } else {
        while i > b 
            invariant_except_break
                i as int == sel(a as int, step as int, result.len() as int), i < len,
            invariant
                step < 0, len == array.len(), -1 <= a < len, -1 <= b < len,
                a == spec_start(len as int, start, step as int), b == spec_stop(len as int, stop, step as int),
                forall|k: int| 0 <= k < result.len() ==> #[trigger] elem_ok(array@, result@, a as int, b as int, step as int, k),
            ensures
                !in_range(a as int, b as int, step as int, result.len() as int),
            decreases (if i > b { i - b } else { 0 }),
        {
            let ghost old_r = result@;
            proof { lemma_sel_step(a as int, step as int, result.len() as int); }
            result.push(array[i as usize].clone());
            proof {
                assert forall|k: int| 0 <= k < result.len() implies #[trigger] elem_ok(array@, result@, a as int, b as int, step as int, k) by {
                    if k < old_r.len() { assert(elem_ok(array@, old_r, a as int, b as int, step as int, k)); assert(result[k] == old_r[k]); } else { assert(k == old_r.len()); }
                }
            }
            i = match i.checked_add(step) { Some(n) => n, None => break };
        }
    }
    result
}

#[inline]
fn adjust_slice_endpoint(len: i32, mut endpoint: i32, step: i32) -> (r: i32)
    requires len > 0,
    ensures r == spec_adjust(len as int, endpoint as int, step as int),
{
    if endpoint < 0 {
        endpoint += len;
        if endpoint >= 0 {
            endpoint
        } else if step < 0 {
            -1
        } else {
            0
        }
    } else if endpoint < len {
        endpoint
    } else if step < 0 {
        len - 1
    } else {
        len
    }
}

} // verus!
fn main() {}
