use vstd::prelude::*;
use std::collections::HashMap;
use std::rc::Rc;
verus! {
pub enum Variable { Null, Bool(bool), Array(Vec<Rcvar>) }
pub type Rcvar = Rc<Variable>;
impl Variable {
    pub fn as_array(&self) -> Option<&Vec<Rcvar>> { match self { Variable::Array(a) => Some(a), _ => None } }
    pub fn is_array(&self) -> bool { self.as_array().is_some() }
    pub fn is_null(&self) -> bool { match self { Variable::Null => true, _ => false } }
}
pub enum ArgumentType { Any, Null, Array, TypedArray(Box<ArgumentType>), Union(Vec<ArgumentType>) }

impl ArgumentType {
    #[verifier::exec_allows_no_decreases_clause]
    pub fn is_valid(&self, value: &Rcvar) -> bool {
        use self::ArgumentType::*;
        match *self {
            Any => true,
            Null if value.is_null() => true,
            Array if value.is_array() => true,
            TypedArray(ref t) if value.is_array() => {
                if let Some(array) = value.as_array() {
                    array.iter().all(|v| t.is_valid(v))
                } else {
                    false
                }
            }
            Union(ref types) => types.iter().any(|t| t.is_valid(value)),
            _ => false,
        }
    }
}

pub trait Function { fn evaluate(&self, args: &[Rcvar]) -> Rcvar; }
pub struct Runtime { functions: HashMap<String, Box<dyn Function>> }
impl Runtime {
    pub fn register_function(&mut self, name: &str, f: Box<dyn Function>) {
        self.functions.insert(name.to_owned(), f);
    }
    pub fn deregister_function(&mut self, name: &str) -> Option<Box<dyn Function>> {
        self.functions.remove(name)
    }
    pub fn get_function<'a>(&'a self, name: &str) -> Option<&'a dyn Function> {
        match self.functions.get(name) { Some(b) => Some(&**b), None => None }
    }
}
fn t_enum(args: &[Rcvar]) -> usize {
    let mut n = 0usize;
    
    n
}
fn t_ok_or(args: &[Rcvar]) -> Result<&Vec<Rcvar>, u8> {
    let values = args[0].as_array().ok_or_else(|| { 3u8 })?;
    Ok(values)
}
} // verus!
fn main() {}
