use vstd::prelude::*;
use serde_json::Number;
verus! {

#[verifier::external_type_specification]
#[verifier::external_body]
pub struct ExNumber(Number);

pub uninterp spec fn num_of_u64(v: u64) -> Number;
pub uninterp spec fn num_of_i64(v: i64) -> Number;

pub assume_specification[ <Number as From<u64>>::from ](v: u64) -> (n: Number)
    ensures n == num_of_u64(v);
pub assume_specification[ <Number as From<i64>>::from ](v: i64) -> (n: Number)
    ensures n == num_of_i64(v);

pub enum Variable { Null, Number(Number) }

fn visit_u64(value: u64) -> (r: Variable)
    ensures r == Variable::Number(num_of_u64(value))
{
    Variable::Number(value.into())
}

fn visit_u64_bad(value: u64) -> (r: Variable)
    ensures r == Variable::Number(num_of_u64(value))
{
    Variable::Number((value as i64).into())
}

} // verus!
fn main() {}
