use vstd::prelude::*;
use std::rc::Rc;
use std::collections::{VecDeque, BTreeMap};
use std::cmp::max;
verus! {
pub type Rcvar = Rc<Variable>;
#[verifier::external_body]
pub struct Number { _p: u8 }
impl Clone for Number { #[verifier::external_body] fn clone(&self) -> Self { unimplemented!() } }
impl std::fmt::Debug for Number { #[verifier::external_body] fn fmt(&self, f: &mut std::fmt::Formatter<'_>) -> std::fmt::Result { unimplemented!() } }
impl Number {
    #[verifier::external_body]
    pub fn as_f64(&self) -> Option<f64> { unimplemented!() }
}
use std::cmp::Ordering;
impl Eq for Variable {}

/// Compares two floats for equality.
///
/// Allows for equivalence of floating point numbers like
/// 0.7100000000000002 and 0.71.
///
/// Based on http://stackoverflow.com/a/4915891
#[verifier::external_body]
fn float_eq(a: f64, b: f64) -> bool {
    use std::f64;
    let abs_a = a.abs();
    let abs_b = b.abs();
    let diff = (a - b).abs();
    if a == b {
        true
    } else if !a.is_normal() || !b.is_normal() {
        // a or b is zero or both are extremely close to it
        // relative error is less meaningful here.
        diff < (f64::EPSILON * f64::MIN_POSITIVE)
    } else {
        // use relative error.
        diff / (abs_a + abs_b) < f64::EPSILON
    }
}

/// Implement PartialEq for looser floating point comparisons.
impl PartialEq for Variable {
    #[verifier::external_body]
    fn eq(&self, other: &Variable) -> bool {
        if self.get_type() != other.get_type() {
            false
        } else {
            match self {
                Variable::Number(a) => {
                    if let (Some(a), Some(b)) = (a.as_f64(), other.as_number()) {
                        float_eq(a, b)
                    } else {
                        false
                    }
                }
                Variable::String(ref s) => Some(s) == other.as_string(),
                Variable::Bool(b) => Some(*b) == other.as_boolean(),
                Variable::Array(ref a) => Some(a) == other.as_array(),
                Variable::Object(ref o) => Some(o) == other.as_object(),
                Variable::Expref(ref e) => Some(e) == other.as_expref(),
                Variable::Null => true,
            }
        }
    }
}

/// Implement PartialOrd so that Ast can be in the PartialOrd of Variable.
impl PartialOrd<Variable> for Variable {
    fn partial_cmp(&self, other: &Variable) -> Option<Ordering> {
        Some(self.cmp(other))
    }

    fn lt(&self, other: &Variable) -> bool {
        self.cmp(other) == Ordering::Less
    }

    fn le(&self, other: &Variable) -> bool {
        let ordering = self.cmp(other);
        ordering == Ordering::Equal || ordering == Ordering::Less
    }

    fn gt(&self, other: &Variable) -> bool {
        self.cmp(other) == Ordering::Greater
    }

    fn ge(&self, other: &Variable) -> bool {
        let ordering = self.cmp(other);
        ordering == Ordering::Equal || ordering == Ordering::Greater
    }
}

impl Ord for Variable {
    #[verifier::external_body]
    fn cmp(&self, other: &Self) -> Ordering {
        let var_type = self.get_type();
        // Variables of different types are considered equal.
        if var_type != other.get_type() {
            Ordering::Equal
        } else {
            match var_type {
                JmespathType::String => {
                    if let (Some(a), Some(b)) = (self.as_string(), other.as_string()) {
                        a.cmp(b)
                    } else {
                        Ordering::Equal
                    }
                }
                JmespathType::Number => {
                    if let (Some(a), Some(b)) = (self.as_number(), other.as_number()) {
                        a.partial_cmp(&b).unwrap_or(Ordering::Less)
                    } else {
                        Ordering::Equal
                    }
                }
                _ => Ordering::Equal,
            }
        }
    }
}


#[verifier::external_body]
pub struct Runtime { _p: u8 }
#[verifier::external_body]
pub struct JmespathError { _p: u8 }
pub enum RuntimeError { InvalidSlice, UnknownFunction(String) }
pub enum ErrorReason { Parse(String), Runtime(RuntimeError) }
pub struct Context<'a> {
    pub expression: &'a str,
    pub runtime: &'a Runtime,
    pub offset: usize,
}
impl JmespathError {
    #[verifier::external_body]
    pub fn from_ctx(ctx: &Context<'_>, reason: ErrorReason) -> JmespathError { unimplemented!() }
}
#[verifier::external_body]
fn idiom_map_or_bool(o: Option<bool>) -> Rcvar { o.map_or(Rcvar::new(Variable::Null), |result| Rcvar::new(Variable::Bool(result))) }
#[verifier::external_body]
fn idiom_values_cloned(v: &BTreeMap<String, Rcvar>) -> Vec<Rcvar> { v.values().cloned().collect::<Vec<Rcvar>>() }
#[verifier::external_body]
fn idiom_extend_cloned(c: &mut Vec<Rcvar>, array: &Vec<Rcvar>) { c.extend(array.iter().cloned()) }
#[verifier::external_body]
fn idiom_to_owned(s: &String) -> String { s.to_owned() }

impl Clone for Ast { #[verifier::external_body] fn clone(&self) -> (r: Self) ensures r == *self { unimplemented!() } }
impl Clone for Variable { #[verifier::external_body] fn clone(&self) -> (r: Self) ensures r == *self { unimplemented!() } }
impl PartialEq for Ast { #[verifier::external_body] fn eq(&self, o: &Self) -> bool { unimplemented!() } }
impl PartialEq for Comparator { #[verifier::external_body] fn eq(&self, o: &Self) -> (r: bool) ensures r == (*self == *o) { unimplemented!() } }
pub trait Function {
    fn evaluate(&self, args: &[Rcvar], ctx: &mut Context<'_>) -> SearchResult;
}
impl Runtime {
    #[verifier::external_body]
    pub fn get_function<'a>(&'a self, name: &str) -> Option<&'a dyn Function> { unimplemented!() }
}
pub assume_specification<T: Ord>[std::cmp::max::<T>](a: T, b: T) -> (r: T)
    ensures r == a || r == b;
/// JMESPath types.
#[derive(Debug, PartialEq, PartialOrd, Eq, Ord)]
pub enum JmespathType {
    Null,
    String,
    Number,
    Boolean,
    Array,
    Object,
    Expref,
}

/// A JMESPath expression abstract syntax tree.
pub enum Ast {
    /// Compares two nodes using a comparator, returning true/false.
    Comparison {
        /// Approximate absolute position in the parsed expression.
        offset: usize,
        /// Comparator that compares the two results
        comparator: Comparator,
        /// Left hand side of the comparison
        lhs: Box<Ast>,
        /// Right hand side of the comparison
        rhs: Box<Ast>,
    },
    /// If `predicate` evaluates to a truthy value, returns the
    /// result `then`
    Condition {
        /// Approximate absolute position in the parsed expression.
        offset: usize,
        /// The predicate to test.
        predicate: Box<Ast>,
        /// The node to traverse if the predicate is truthy.
        then: Box<Ast>,
    },
    /// Returns the current node.
    Identity {
        /// Approximate absolute position in the parsed expression.
        offset: usize,
    },
    /// Used by functions to dynamically evaluate argument values.
    Expref {
        /// Approximate absolute position in the parsed expression.
        offset: usize,
        /// Node to execute
        ast: Box<Ast>,
    },
    /// Evaluates the node, then flattens it one level.
    Flatten {
        /// Approximate absolute position in the parsed expression.
        offset: usize,
        /// Node to execute and flatten
        node: Box<Ast>,
    },
    /// Function name and a vec or function argument expressions.
    Function {
        /// Approximate absolute position in the parsed expression.
        offset: usize,
        /// Function name to invoke.
        name: String,
        /// Function arguments.
        args: Vec<Ast>,
    },
    /// Extracts a key by name from a map.
    Field {
        /// Approximate absolute position in the parsed expression.
        offset: usize,
        /// Field name to extract.
        name: String,
    },
    /// Extracts an index from a Vec.
    Index {
        /// Approximate absolute position in the parsed expression.
        offset: usize,
        /// Index to extract
        idx: i32,
    },
    /// Resolves to a literal value.
    Literal {
        /// Approximate absolute position in the parsed expression.
        offset: usize,
        /// Literal value
        value: Rcvar,
    },
    /// Evaluates to a list of evaluated expressions.
    MultiList {
        /// Approximate absolute position in the parsed expression.
        offset: usize,
        /// Elements of the list
        elements: Vec<Ast>,
    },
    /// Evaluates to a map of key value pairs.
    MultiHash {
        /// Approximate absolute position in the parsed expression.
        offset: usize,
        /// Elements of the hash
        elements: Vec<KeyValuePair>,
    },
    /// Evaluates to true/false based on if the expression is not truthy.
    Not {
        /// Approximate absolute position in the parsed expression.
        offset: usize,
        /// node to negate
        node: Box<Ast>,
    },
    /// Evaluates LHS, and pushes each value through RHS.
    Projection {
        /// Approximate absolute position in the parsed expression.
        offset: usize,
        /// Left hand side of the projection.
        lhs: Box<Ast>,
        /// Right hand side of the projection.
        rhs: Box<Ast>,
    },
    /// Evaluates LHS. If it resolves to an object, returns a Vec of values.
    ObjectValues {
        /// Approximate absolute position in the parsed expression.
        offset: usize,
        /// Node to extract object values from.
        node: Box<Ast>,
    },
    /// Evaluates LHS. If not truthy returns. Otherwise evaluates RHS.
    And {
        /// Approximate absolute position in the parsed expression.
        offset: usize,
        /// Left hand side of the expression.
        lhs: Box<Ast>,
        /// Right hand side of the expression.
        rhs: Box<Ast>,
    },
    /// Evaluates LHS. If truthy returns. Otherwise evaluates RHS.
    Or {
        /// Approximate absolute position in the parsed expression.
        offset: usize,
        /// Left hand side of the expression.
        lhs: Box<Ast>,
        /// Right hand side of the expression.
        rhs: Box<Ast>,
    },
    /// Returns a slice of a vec, using start, stop, and step.
    Slice {
        /// Approximate absolute position in the parsed expression.
        offset: usize,
        /// Starting index
        start: Option<i32>,
        /// Stopping index
        stop: Option<i32>,
        /// Step amount between extractions.
        step: i32,
    },
    /// Evaluates RHS, then provides that value to the evaluation of RHS.
    Subexpr {
        /// Approximate absolute position in the parsed expression.
        offset: usize,
        /// Left hand side of the expression.
        lhs: Box<Ast>,
        /// Right hand side of the expression.
        rhs: Box<Ast>,
    },
}

/// Represents a key value pair in a MultiHash.
pub struct KeyValuePair {
    /// Key name.
    pub key: String,
    /// Value expression used to determine the value.
    pub value: Ast,
}

/// Comparators used in Comparison nodes.
pub enum Comparator {
    Equal,
    NotEqual,
    LessThan,
    LessThanEqual,
    GreaterThan,
    GreaterThanEqual,
}

/// JMESPath variable.
pub enum Variable {
    Null,
    String(String),
    Bool(bool),
    Number(Number),
    Array(Vec<Rcvar>),
    Object(BTreeMap<String, Rcvar>),
    Expref(Ast),
}

impl Variable {
    /// Returns true if the Variable is an Array. Returns false otherwise.
    pub fn is_array(&self) -> bool {
        self.as_array().is_some()
    }

    /// If the Variable value is an Array, returns the associated vector.
    /// Returns None otherwise.
    pub fn as_array(&self) -> Option<&Vec<Rcvar>> {
        match self {
            Variable::Array(array) => Some(array),
            _ => None,
        }
    }

    /// Returns true if the value is an Object.
    pub fn is_object(&self) -> bool {
        self.as_object().is_some()
    }

    /// If the value is an Object, returns the associated BTreeMap.
    /// Returns None otherwise.
    pub fn as_object(&self) -> Option<&BTreeMap<String, Rcvar>> {
        match self {
            Variable::Object(map) => Some(map),
            _ => None,
        }
    }

    /// Returns true if the value is a String. Returns false otherwise.
    pub fn is_string(&self) -> bool {
        self.as_string().is_some()
    }

    /// If the value is a String, returns the associated str.
    /// Returns None otherwise.
    pub fn as_string(&self) -> Option<&String> {
        match self {
            Variable::String(ref s) => Some(s),
            _ => None,
        }
    }

    /// Returns true if the value is a Number. Returns false otherwise.
    pub fn is_number(&self) -> bool {
        matches!(self, Variable::Number(_))
    }

    /// If the value is a number, return or cast it to a f64.
    /// Returns None otherwise.
    pub fn as_number(&self) -> Option<f64> {
        match self {
            Variable::Number(f) => f.as_f64(),
            _ => None,
        }
    }

    /// Returns true if the value is a Boolean. Returns false otherwise.
    pub fn is_boolean(&self) -> bool {
        self.as_boolean().is_some()
    }

    /// If the value is a Boolean, returns the associated bool.
    /// Returns None otherwise.
    pub fn as_boolean(&self) -> Option<bool> {
        match self {
            Variable::Bool(b) => Some(*b),
            _ => None,
        }
    }

    /// Returns true if the value is a Null. Returns false otherwise.
    pub fn is_null(&self) -> bool {
        self.as_null().is_some()
    }

    /// If the value is a Null, returns ().
    /// Returns None otherwise.
    pub fn as_null(&self) -> Option<()> {
        match self {
            Variable::Null => Some(()),
            _ => None,
        }
    }

    /// Returns true if the value is an expression reference.
    /// Returns false otherwise.
    pub fn is_expref(&self) -> bool {
        self.as_expref().is_some()
    }

    /// If the value is an expression reference, returns the associated Ast node.
    /// Returns None otherwise.
    pub fn as_expref(&self) -> Option<&Ast> {
        match *self {
            Variable::Expref(ref ast) => Some(ast),
            _ => None,
        }
    }

    /// If the value is an object, returns the value associated with the provided key.
    /// Otherwise, returns Null.
    #[inline]
    pub fn get_field(&self, key: &str) -> Rcvar {
        if let Variable::Object(ref map) = self {
            if let Some(result) = map.get(key) {
                return result.clone();
            }
        }
        Rcvar::new(Variable::Null)
    }

    /// If the value is an array, then gets an array value by index. Otherwise returns Null.
    #[inline]
    pub fn get_index(&self, index: usize) -> Rcvar {
        if let Variable::Array(ref array) = self {
            if let Some(result) = array.get(index) {
                return result.clone();
            }
        }
        Rcvar::new(Variable::Null)
    }

    /// Retrieves an index from the end of an array.
    ///
    /// Returns Null if not an array or if the index is not present.
    /// The formula for determining the index position is length - index (i.e., an
    /// index of 0 or 1 is treated as the end of the array).
    pub fn get_negative_index(&self, index: usize) -> Rcvar {
        if let Variable::Array(ref array) = self {
            let adjusted_index = max(index, 1);
            if array.len() >= adjusted_index {
                return array[array.len() - adjusted_index].clone();
            }
        }
        Rcvar::new(Variable::Null)
    }

    /// Returns true or false based on if the Variable value is considered truthy.
    pub fn is_truthy(&self) -> bool {
        match self {
            Variable::Bool(b) => *b,
            Variable::String(ref s) => !s.is_empty(),
            Variable::Array(ref a) => !a.is_empty(),
            Variable::Object(ref o) => !o.is_empty(),
            Variable::Number(_) => true,
            _ => false,
        }
    }

    /// Returns the JMESPath type name of a Variable value.
    pub fn get_type(&self) -> JmespathType {
        match *self {
            Variable::Bool(_) => JmespathType::Boolean,
            Variable::String(_) => JmespathType::String,
            Variable::Number(_) => JmespathType::Number,
            Variable::Array(_) => JmespathType::Array,
            Variable::Object(_) => JmespathType::Object,
            Variable::Null => JmespathType::Null,
            Variable::Expref(_) => JmespathType::Expref,
        }
    }

    /// Compares two Variable values using a comparator.
    pub fn compare(&self, cmp: &Comparator, value: &Variable) -> Option<bool> {
        // Ordering requires numeric values.
        if !(self.is_number() && value.is_number()
            || *cmp == Comparator::NotEqual
            || *cmp == Comparator::Equal)
        {
            return None;
        }
        match *cmp {
            Comparator::Equal => Some(*self == *value),
            Comparator::NotEqual => Some(*self != *value),
            Comparator::LessThan => Some(*self < *value),
            Comparator::LessThanEqual => Some(*self <= *value),
            Comparator::GreaterThan => Some(*self > *value),
            Comparator::GreaterThanEqual => Some(*self >= *value),
        }
    }

    /// Returns a slice of the variable if the variable is an array.
    pub fn slice(&self, start: Option<i32>, stop: Option<i32>, step: i32) -> Option<Vec<Rcvar>> {
        self.as_array().map(|a| slice(a, start, stop, step))
    }
}

#[verifier::exec_allows_no_decreases_clause]
fn slice(array: &[Rcvar], start: Option<i32>, stop: Option<i32>, step: i32) -> Vec<Rcvar> {
    let mut result = vec![];
    let len = array.len() as i32;
    if len == 0 {
        return result;
    }
    let a: i32 = match start {
        Some(starting_index) => adjust_slice_endpoint(len, starting_index, step),
        _ if step < 0 => len - 1,
        _ => 0,
    };
    let b: i32 = match stop {
        Some(ending_index) => adjust_slice_endpoint(len, ending_index, step),
        _ if step < 0 => -1,
        _ => len,
    };
    let mut i = a;
    if step > 0 {
        while i < b {
            result.push(array[i as usize].clone());
            i += step;
        }
    } else {
        while i > b {
            result.push(array[i as usize].clone());
            i += step;
        }
    }
    result
}

#[inline]
fn adjust_slice_endpoint(len: i32, mut endpoint: i32, step: i32) -> i32 {
    if endpoint < 0 {
        endpoint += len;
        if endpoint >= 0 {
            endpoint
        } else if step < 0 {
            -1
        } else {
            0
        }
    } else if endpoint < len {
        endpoint
    } else if step < 0 {
        len - 1
    } else {
        len
    }
}

/// Result of searching data using a JMESPath Expression.
pub type SearchResult = Result<Rcvar, JmespathError>;

/// Interprets the given data using an AST node.
#[verifier::exec_allows_no_decreases_clause]
pub fn interpret(data: &Rcvar, node: &Ast, ctx: &mut Context<'_>) -> SearchResult {
    match *node {
        Ast::Field { ref name, .. } => Ok(data.get_field(name)),
        Ast::Subexpr {
            ref lhs, ref rhs, ..
        } => {
            let left_result = interpret(data, lhs, ctx)?;
            interpret(&left_result, rhs, ctx)
        }
        Ast::Identity { .. } => Ok(data.clone()),
        Ast::Literal { ref value, .. } => Ok(value.clone()),
        Ast::Index { idx, .. } => {
            if idx >= 0 {
                Ok(data.get_index(idx as usize))
            } else {
                Ok(data.get_negative_index((-idx) as usize))
            }
        }
        Ast::Or {
            ref lhs, ref rhs, ..
        } => {
            let left = interpret(data, lhs, ctx)?;
            if left.is_truthy() {
                Ok(left)
            } else {
                interpret(data, rhs, ctx)
            }
        }
        Ast::And {
            ref lhs, ref rhs, ..
        } => {
            let left = interpret(data, lhs, ctx)?;
            if !left.is_truthy() {
                Ok(left)
            } else {
                interpret(data, rhs, ctx)
            }
        }
        Ast::Not { ref node, .. } => {
            let result = interpret(data, node, ctx)?;
            Ok(Rcvar::new(Variable::Bool(!result.is_truthy())))
        }
        // Returns the resut of RHS if cond yields truthy value.
        Ast::Condition {
            ref predicate,
            ref then,
            ..
        } => {
            let cond_result = interpret(data, predicate, ctx)?;
            if cond_result.is_truthy() {
                interpret(data, then, ctx)
            } else {
                Ok(Rcvar::new(Variable::Null))
            }
        }
        Ast::Comparison {
            ref comparator,
            ref lhs,
            ref rhs,
            ..
        } => {
            let left = interpret(data, lhs, ctx)?;
            let right = interpret(data, rhs, ctx)?;
            Ok(idiom_map_or_bool(left.compare(comparator, &*right)))
        }
        // Converts an object into a JSON array of its values.
        Ast::ObjectValues { ref node, .. } => {
            let subject = interpret(data, node, ctx)?;
            match *subject {
                Variable::Object(ref v) => Ok(Rcvar::new(Variable::Array(
                    idiom_values_cloned(v),
                ))),
                _ => Ok(Rcvar::new(Variable::Null)),
            }
        }
        // Passes the results of lhs into rhs if lhs yields an array and
        // each node of lhs that passes through rhs yields a non-null value.
        Ast::Projection {
            ref lhs, ref rhs, ..
        } => match interpret(data, lhs, ctx)?.as_array() {
            None => Ok(Rcvar::new(Variable::Null)),
            Some(left) => {
                let mut collected = vec![];
                for element in left {
                    let current = interpret(element, rhs, ctx)?;
                    if !current.is_null() {
                        collected.push(current);
                    }
                }
                Ok(Rcvar::new(Variable::Array(collected)))
            }
        },
        Ast::Flatten { ref node, .. } => match interpret(data, node, ctx)?.as_array() {
            None => Ok(Rcvar::new(Variable::Null)),
            Some(a) => {
                let mut collected: Vec<Rcvar> = vec![];
                for element in a {
                    match element.as_array() {
                        Some(array) => idiom_extend_cloned(&mut collected, array),
                        _ => collected.push(element.clone()),
                    }
                }
                Ok(Rcvar::new(Variable::Array(collected)))
            }
        },
        Ast::MultiList { ref elements, .. } => {
            if data.is_null() {
                Ok(Rcvar::new(Variable::Null))
            } else {
                let mut collected = vec![];
                for node in elements {
                    collected.push(interpret(data, node, ctx)?);
                }
                Ok(Rcvar::new(Variable::Array(collected)))
            }
        }
        Ast::MultiHash { ref elements, .. } => {
            if data.is_null() {
                Ok(Rcvar::new(Variable::Null))
            } else {
                let mut collected = BTreeMap::new();
                for kvp in elements {
                    let value = interpret(data, &kvp.value, ctx)?;
                    collected.insert(kvp.key.clone(), value);
                }
                Ok(Rcvar::new(Variable::Object(collected)))
            }
        }
        Ast::Function {
            ref name,
            ref args,
            offset,
        } => {
            let mut fn_args: Vec<Rcvar> = vec![];
            for arg in args {
                fn_args.push(interpret(data, arg, ctx)?);
            }
            // Reset the offset so that it points to the function being evaluated.
            ctx.offset = offset;
            match ctx.runtime.get_function(name) {
                Some(f) => f.evaluate(&fn_args, ctx),
                None => {
                    let reason =
                        ErrorReason::Runtime(RuntimeError::UnknownFunction(idiom_to_owned(name)));
                    Err(JmespathError::from_ctx(ctx, reason))
                }
            }
        }
        Ast::Expref { ref ast, .. } => Ok(Rcvar::new(Variable::Expref(*ast.clone()))),
        Ast::Slice {
            start,
            stop,
            step,
            offset,
        } => {
            if step == 0 {
                ctx.offset = offset;
                let reason = ErrorReason::Runtime(RuntimeError::InvalidSlice);
                Err(JmespathError::from_ctx(ctx, reason))
            } else {
                match data.slice(start, stop, step) {
                    Some(array) => Ok(Rcvar::new(Variable::Array(array))),
                    None => Ok(Rcvar::new(Variable::Null)),
                }
            }
        }
    }
}

} // verus!
fn main() {}
