use vstd::prelude::*;
use std::collections::HashMap;
verus! {
pub trait Function { fn evaluate(&self, x: u8) -> u8; }
pub struct Runtime { functions: HashMap<String, Box<dyn Function>> }
impl Runtime {
    pub fn register_function(&mut self, name: &str, f: Box<dyn Function>)
        ensures final(self).functions@ == old(self).functions@.insert(name@, f),
    {
        self.functions.insert(name.to_owned(), f);
    }
    pub fn deregister_function(&mut self, name: &str) -> (r: Option<Box<dyn Function>>)
        ensures final(self).functions@ == old(self).functions@.remove(name@),
            r == (if old(self).functions@.contains_key(name@) { Some(old(self).functions@[name@]) } else { None }),
    {
        self.functions.remove(name)
    }
    pub fn get_function<'a>(&'a self, name: &str) -> (r: Option<&'a Box<dyn Function>>)
        ensures r == (if self.functions@.contains_key(name@) { Some(&self.functions@[name@]) } else { None }),
    {
        self.functions.get(name)
    }
}
} // verus!
fn main() {}
