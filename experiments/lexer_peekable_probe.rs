use vstd::prelude::*;
use std::iter::Peekable;
use std::str::CharIndices;
verus! {

#[verifier::external_type_specification]
#[verifier::external_body]
pub struct ExCharIndices<'a>(CharIndices<'a>);

#[verifier::external_type_specification]
#[verifier::external_body]
#[verifier::reject_recursive_types(I)]
pub struct ExPeekable<I: Iterator>(Peekable<I>);

// ghost view: the remaining (byte offset, char) pairs
pub uninterp spec fn rem<'a>(it: &Peekable<CharIndices<'a>>) -> Seq<(usize, char)>;

pub assume_specification<'a>[ <Peekable<CharIndices<'a>> as Iterator>::next ](it: &mut Peekable<CharIndices<'a>>) -> (r: Option<(usize, char)>)
    ensures
        rem(old(it)).len() == 0 ==> r.is_none() && rem(it) == rem(old(it)),
        rem(old(it)).len() > 0 ==> r == Some(rem(old(it))[0]) && rem(it) == rem(old(it)).skip(1);

pub assume_specification<'a, 'b>[ Peekable::<CharIndices<'a>>::peek ](it: &'b mut Peekable<CharIndices<'a>>) -> (r: Option<&'b (usize, char)>)
    ensures
        rem(it) == rem(old(it)),
        rem(old(it)).len() == 0 ==> r.is_none(),
        rem(old(it)).len() > 0 ==> r.is_some() && *r.unwrap() == rem(old(it))[0];

pub assume_specification[ String::push ](s: &mut String, c: char)
    ensures s@ == old(s)@.push(c);

pub enum Token { Flatten, Filter, Lbracket, A, B }
use self::Token::*;

struct Lexer<'a> {
    iter: Peekable<CharIndices<'a>>,
    expr: &'a str,
}

impl<'a> Lexer<'a> {
    #[inline]
    fn consume_lbracket(&mut self) -> (t: Token)
        ensures
            rem(&old(self).iter).len() > 0 && rem(&old(self).iter)[0].1 == ']' ==> t is Flatten && rem(&self.iter) == rem(&old(self).iter).skip(1),
    {
        match self.iter.peek() {
            Some(&(_, ']')) => {
                self.iter.next();
                Flatten
            }
            Some(&(_, '?')) => {
                self.iter.next();
                Filter
            }
            _ => Lbracket,
        }
    }

    #[inline]
    fn consume_while<F>(&mut self, mut buffer: String, predicate: F) -> String
    where
        F: Fn(char) -> bool,
    {
        loop 
            decreases rem(&self.iter).len()
        {
            match self.iter.peek() {
                None => break,
                Some(&(_, c)) if !predicate(c) => break,
                Some(&(_, c)) => {
                    buffer.push(c);
                    self.iter.next();
                }
            }
        }
        buffer
    }
}

} // verus!
fn main() {}
