use vstd::prelude::*;
use std::rc::Rc;
verus! {
pub enum Variable { Null, Bool(bool), Array(Vec<Rcvar>) }
pub type Rcvar = Rc<Variable>;
pub enum Ast {
    Identity { offset: usize },
    Not { offset: usize, node: Box<Ast> },
    Subexpr { offset: usize, lhs: Box<Ast>, rhs: Box<Ast> },
    Projection { offset: usize, lhs: Box<Ast>, rhs: Box<Ast> },
}
#[verifier::external_body]
pub struct JmespathError { _p: u8 }
pub type SearchResult = Result<Rcvar, JmespathError>;
pub struct Context { pub offset: usize }

impl Variable {
    pub open spec fn truthy(self) -> bool {
        match self { Variable::Bool(b) => b, Variable::Array(a) => a@.len() > 0, Variable::Null => false }
    }
    pub fn is_truthy(&self) -> (r: bool) ensures r == self.truthy() {
        match self {
            Variable::Bool(b) => *b,
            Variable::Array(ref a) => !a.is_empty(),
            _ => false,
        }
    }
    pub fn as_array(&self) -> (r: Option<&Vec<Rcvar>>)
        ensures match *self { Variable::Array(a) => r == Some(&a), _ => r is None }
    { match self { Variable::Array(array) => Some(array), _ => None } }
    pub fn is_null(&self) -> (r: bool) ensures r == (*self is Null) { match self { Variable::Null => true, _ => false } }
}
pub open spec fn val(r: &Rcvar) -> Variable { **r }
pub open spec fn derefs(s: Seq<Rcvar>) -> Seq<Variable> { s.map_values(|x: Rcvar| *x) }
pub open spec fn non_null(s: Seq<Variable>) -> Seq<Variable> { s.filter(|v: Variable| !(v is Null)) }

// ghost derivation tree
pub ghost enum W {
    Atom,
    One(Box<W>, Variable),
    Two(Box<W>, Variable, Box<W>),
    Proj(Box<W>, Variable, Seq<W>, Seq<Variable>),
}

pub open spec fn per_elem(rhs: Ast, elems: Seq<Rcvar>, per: Seq<Variable>, ws: Seq<W>) -> bool
    decreases rhs, 1int
{
    per.len() == elems.len() && ws.len() == elems.len()
    && forall|i: int| 0 <= i < per.len() ==> evals_w(rhs, *elems[i], #[trigger] per[i], ws[i])
}

pub open spec fn evals_w(node: Ast, d: Variable, r: Variable, w: W) -> bool
    decreases node, 0int
{
    match node {
        Ast::Identity { .. } => r == d,
        Ast::Not { node: n, .. } => w matches W::One(w1, x) && evals_w(*n, d, x, *w1) && r == Variable::Bool(!x.truthy()),
        Ast::Subexpr { lhs, rhs, .. } => w matches W::Two(w1, m, w2) && evals_w(*lhs, d, m, *w1) && evals_w(*rhs, m, r, *w2),
        Ast::Projection { lhs, rhs, .. } => w matches W::Proj(w1, l, ws, per) && evals_w(*lhs, d, l, *w1) && match l {
            Variable::Array(elems) => (r is Array) && per_elem(*rhs, elems@, per, ws) && derefs(r->Array_0@) == non_null(per),
            _ => r == Variable::Null,
        },
    }
}

proof fn lemma_filter_push(s: Seq<Variable>, v: Variable)
    ensures non_null(s.push(v)) == (if v is Null { non_null(s) } else { non_null(s).push(v) })
{
    assert(s.push(v).drop_last() =~= s);
    reveal(Seq::filter);
}

#[verifier::exec_allows_no_decreases_clause]
pub fn interpret(data: &Rcvar, node: &Ast, ctx: &mut Context) -> (res: SearchResult)
    ensures res matches Ok(v) ==> exists|w: W| evals_w(*node, **data, *v, w)
{
    match *node {
        Ast::Subexpr { ref lhs, ref rhs, .. } => {
            let left_result = interpret(data, lhs, ctx)?;
            let r = interpret(&left_result, rhs, ctx);
            proof { if let Ok(v) = &r {
                let w1 = choose|w: W| evals_w(**lhs, **data, *left_result, w);
                let w2 = choose|w: W| evals_w(**rhs, *left_result, **v, w);
                assert(evals_w(*node, **data, **v, W::Two(Box::new(w1), *left_result, Box::new(w2))));
            } }
            r
        }
        Ast::Identity { .. } => { let r = data.clone(); proof { assert(evals_w(*node, **data, *r, W::Atom)); } Ok(r) }
        Ast::Not { node: ref inner, .. } => {
            let result = interpret(data, inner, ctx)?;
            let r = Rcvar::new(Variable::Bool(!result.is_truthy()));
            proof {
                let w1 = choose|w: W| evals_w(**inner, **data, *result, w);
                assert(evals_w(*node, **data, *r, W::One(Box::new(w1), *result)));
            }
            Ok(r)
        }
        Ast::Projection { ref lhs, ref rhs, .. } => match interpret(data, lhs, ctx)?.as_array() {
            None => { let r = Rcvar::new(Variable::Null);
                proof {
                    let (l, w1) = choose|l: Variable, w: W| evals_w(**lhs, **data, l, w) && !(l is Array);
                    assert(evals_w(*node, **data, *r, W::Proj(Box::new(w1), l, Seq::empty(), Seq::empty()))); }
                Ok(r) }
            Some(left) => {
                let mut collected = vec![];
                let ghost mut per: Seq<Variable> = Seq::empty();
                let ghost mut ws: Seq<W> = Seq::empty();
                for element in it: left
                    invariant
                        per.len() == it.index@, ws.len() == it.index@,
                        forall|i: int| 0 <= i < per.len() ==> evals_w(**rhs, *left@[i], #[trigger] per[i], ws[i]),
                        derefs(collected@) == non_null(per),
                {
                    let current = interpret(element, rhs, ctx)?;
                    proof {
                        let ghost old_per = per;
                        let wi = choose|w: W| evals_w(**rhs, **element, *current, w);
                        per = per.push(val(&current));
                        ws = ws.push(wi);
                        lemma_filter_push(old_per, val(&current));
                    }
                    if !current.is_null() {
                        collected.push(current);
                        proof { assert(derefs(collected@) =~= non_null(per)); }
                    }
                }
                let r = Rcvar::new(Variable::Array(collected));
                proof {
                    assert(per_elem(**rhs, left@, per, ws));
                    let (l, w1) = choose|l: Variable, w: W| evals_w(**lhs, **data, l, w) && l == Variable::Array(*left);
                    assert(evals_w(*node, **data, *r, W::Proj(Box::new(w1), l, ws, per)));
                }
                Ok(r)
            }
        },
    }
}
} // verus!
fn main() {}
