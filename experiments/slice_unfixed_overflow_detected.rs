use vstd::prelude::*;
use std::rc::Rc;
verus! {

#[verifier::external_body]
pub struct Variable { _p: u8 }

pub type Rcvar = Rc<Variable>;

// ---------- spec: Python / JMESPath slice rule ----------
pub open spec fn spec_adjust(len: int, e: int, step: int) -> int {
    if e < 0 {
        if e + len >= 0 { e + len } else if step < 0 { -1 } else { 0 }
    } else if e < len { e } else if step < 0 { len - 1 } else { len }
}
pub open spec fn spec_start(len: int, start: Option<i32>, step: int) -> int {
    match start { Some(s) => spec_adjust(len, s as int, step), None => if step < 0 { len - 1 } else { 0 } }
}
pub open spec fn spec_stop(len: int, stop: Option<i32>, step: int) -> int {
    match stop { Some(s) => spec_adjust(len, s as int, step), None => if step < 0 { -1 } else { len } }
}
pub open spec fn spec_count(a: int, b: int, step: int) -> int {
    if step > 0 { if a < b { (b - a + step - 1) / step } else { 0 } }
    else { if a > b { (a - b - step - 1) / (-step) } else { 0 } }
}

fn slice(array: &[Rcvar], start: Option<i32>, stop: Option<i32>, step: i32) -> (result: Vec<Rcvar>)
    requires step != 0, array.len() <= i32::MAX,
    ensures
        ({
            let len = array.len() as int;
            let a = spec_start(len, start, step as int);
            let b = spec_stop(len, stop, step as int);
            let n = if len == 0 { 0 } else { spec_count(a, b, step as int) };
            &&& result.len() == n
            &&& forall|k: int| 0 <= k < n ==> 0 <= a + k * step < len && result[k] == array[a + k * step]
        }),
{
    let mut result = vec![];
    let len = array.len() as i32;
    if len == 0 {
        return result;
    }
    let a: i32 = match start {
        Some(starting_index) => adjust_slice_endpoint(len, starting_index, step),
        _ if step < 0 => len - 1,
        _ => 0,
    };
    let b: i32 = match stop {
        Some(ending_index) => adjust_slice_endpoint(len, ending_index, step),
        _ if step < 0 => -1,
        _ => len,
    };
    let mut i = a;
    if step > 0 {
        while i < b 
            invariant
                step > 0, len == array.len(), 0 <= a <= len, 0 <= b <= len, a <= i,
                i < b ==> 0 <= i < len,
            decreases b - i,
        {
            result.push(array[i as usize].clone());
            i += step;
        }
    } else {
        while i > b 
            invariant
                step < 0, len == array.len(), -1 <= a < len, -1 <= b < len, a >= i,
            decreases i - b,
        {
            result.push(array[i as usize].clone());
            i += step;
        }
    }
    result
}

#[inline]
fn adjust_slice_endpoint(len: i32, mut endpoint: i32, step: i32) -> (r: i32)
    requires len > 0,
    ensures r == spec_adjust(len as int, endpoint as int, step as int),
{
    if endpoint < 0 {
        endpoint += len;
        if endpoint >= 0 {
            endpoint
        } else if step < 0 {
            -1
        } else {
            0
        }
    } else if endpoint < len {
        endpoint
    } else if step < 0 {
        len - 1
    } else {
        len
    }
}

} // verus!
fn main() {}
