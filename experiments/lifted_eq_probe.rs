use vstd::prelude::*;
use std::rc::Rc;
use std::collections::BTreeMap;
verus! {
pub enum Variable { Null, String(String), Bool(bool), Number(u64), Array(Vec<Rcvar>), Object(BTreeMap<String, Rcvar>) }
pub type Rcvar = Rc<Variable>;
#[derive(PartialEq, Eq)]
pub enum JmespathType { Null, String, Number, Boolean, Array, Object }

pub uninterp spec fn spec_eq(a: Variable, b: Variable) -> bool;

impl PartialEq for Variable {
    #[verifier::external_body]
    fn eq(&self, other: &Variable) -> (r: bool)
        ensures r == spec_eq(*self, *other)
    { unimplemented!() }
}

impl Variable {
    pub open spec fn ty(&self) -> JmespathType { match *self { Variable::Bool(_) => JmespathType::Boolean, Variable::String(_) => JmespathType::String, Variable::Number(_) => JmespathType::Number, Variable::Array(_) => JmespathType::Array, Variable::Object(_) => JmespathType::Object, Variable::Null => JmespathType::Null } }
    pub fn get_type(&self) -> (t: JmespathType) ensures t == self.ty() {
        match *self {
            Variable::Bool(_) => JmespathType::Boolean,
            Variable::String(_) => JmespathType::String,
            Variable::Number(_) => JmespathType::Number,
            Variable::Array(_) => JmespathType::Array,
            Variable::Object(_) => JmespathType::Object,
            Variable::Null => JmespathType::Null,
        }
    }
    pub fn as_array(&self) -> Option<&Vec<Rcvar>> { match self { Variable::Array(array) => Some(array), _ => None } }
    pub fn as_object(&self) -> Option<&BTreeMap<String, Rcvar>> { match self { Variable::Object(map) => Some(map), _ => None } }
    pub fn as_string(&self) -> Option<&String> { match self { Variable::String(ref s) => Some(s), _ => None } }
    pub fn as_boolean(&self) -> Option<bool> { match self { Variable::Bool(b) => Some(*b), _ => None } }
}

// R4-lifted body of `impl PartialEq for Variable { fn eq }`
fn eq_lifted(self_: &Variable, other: &Variable) -> (r: bool)
    ensures
        self_.ty() != other.ty() ==> !r,
        (*self_ is Null && *other is Null) ==> r,
        (*self_ is Bool && *other is Bool) ==> r == (self_->Bool_0 == other->Bool_0),
        (*self_ is String && *other is String) ==> r == (self_->String_0@ == other->String_0@),
        (*self_ is Array && *other is Array) ==> r == (self_->Array_0@.len() == other->Array_0@.len()
            && forall|i: int| 0 <= i < self_->Array_0@.len() ==> spec_eq(*self_->Array_0@[i], *other->Array_0@[i])),
{
    if self_.get_type() != other.get_type() {
        false
    } else {
        match self_ {
            Variable::Number(a) => true,
            Variable::String(ref s) => Some(s) == other.as_string(),
            Variable::Bool(b) => Some(*b) == other.as_boolean(),
            Variable::Array(ref a) => Some(a) == other.as_array(),
            Variable::Object(ref o) => Some(o) == other.as_object(),
            Variable::Null => true,
        }
    }
}
} // verus!
fn main() {}
