#![feature(allocator_api)]
use vstd::prelude::*;
use std::collections::VecDeque;
verus! {
#[derive(PartialEq)]
pub enum Token { Identifier(u8), Comma, Rbracket, Rparen, Eof }
pub type TokenTuple = (usize, Token);
pub struct Ast { pub x: u8 }
#[verifier::external_body]
pub struct JmespathError { _p: u8 }

pub assume_specification<T, A: std::alloc::Allocator>[ VecDeque::<T, A>::get ](q: &VecDeque<T, A>, i: usize) -> (r: Option<&T>)
    ensures i < q@.len() ==> r == Some(&q@[i as int]), i >= q@.len() ==> r is None;

struct Parser {
    token_queue: VecDeque<TokenTuple>,
    eof_token: Token,
    offset: usize,
}
pub open spec fn is_suffix<T>(s: Seq<T>, of: Seq<T>) -> bool { s.len() <= of.len() && s == of.skip(of.len() - s.len()) }

impl Parser {
    spec fn toks(&self) -> Seq<TokenTuple> { self.token_queue@ }
    spec fn wf(&self) -> bool { self.eof_token == Token::Eof }
    spec fn peek_spec(&self, k: int) -> Token { if 0 <= k < self.toks().len() { self.toks()[k].1 } else { Token::Eof } }

    fn advance(&mut self) -> (t: Token)
        requires old(self).wf()
        ensures final(self).wf(), t == old(self).peek_spec(0),
            final(self).toks() == (if old(self).toks().len() > 0 { old(self).toks().skip(1) } else { old(self).toks() }),
    {
        self.advance_with_pos().1
    }
    fn advance_with_pos(&mut self) -> (r: (usize, Token))
        requires old(self).wf()
        ensures final(self).wf(), r.1 == old(self).peek_spec(0),
            final(self).toks() == (if old(self).toks().len() > 0 { old(self).toks().skip(1) } else { old(self).toks() }),
    {
        match self.token_queue.pop_front() {
            Some((pos, tok)) => {
                self.offset = pos;
                (pos, tok)
            }
            None => (self.offset, Token::Eof),
        }
    }
    fn peek(&self, lookahead: usize) -> (t: &Token)
        requires self.wf()
        ensures *t == self.peek_spec(lookahead as int)
    {
        match self.token_queue.get(lookahead) {
            Some((_, t)) => t,
            None => &self.eof_token,
        }
    }
    #[verifier::external_body]
    fn err(&self, current_token: &Token, error_msg: &str, is_peek: bool) -> JmespathError { unimplemented!() }

    #[verifier::external_body]
    fn expr(&mut self, rbp: usize) -> (r: Result<Ast, JmespathError>)
        requires old(self).wf()
        ensures final(self).wf(), r is Ok ==> final(self).toks().len() < old(self).toks().len() && is_suffix(final(self).toks(), old(self).toks()),
    { unimplemented!() }

    fn parse_list(&mut self, closing: Token) -> (r: Result<Vec<Ast>, JmespathError>)
        requires old(self).wf(), closing != Token::Eof,
        ensures final(self).wf(),
    {
        let mut nodes = vec![];
        while self.peek(0) != &closing
            invariant self.wf(), closing != Token::Eof,
            decreases self.toks().len(),
        {
            nodes.push(self.expr(0)?);
            // Skip commas
            if self.peek(0) == &Token::Comma {
                self.advance();
                if self.peek(0) == &closing {
                    return Err(self.err(self.peek(0), "invalid token after ','", true));
                }
            }
        }
        self.advance();
        Ok(nodes)
    }
}
} // verus!
fn main() {}
