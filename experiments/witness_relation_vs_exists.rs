use vstd::prelude::*;
verus! {
pub enum Variable { Null, Bool(bool) }
pub enum Ast {
    Identity { offset: usize },
    Subexpr { offset: usize, lhs: Box<Ast>, rhs: Box<Ast> },
}
// witness-carrying relation: no quantifier under recursion
pub ghost enum W { Atom, Two(Box<W>, Variable, Box<W>) }
pub open spec fn evals_w(node: Ast, d: Variable, r: Variable, w: W) -> bool
    decreases node
{
    match node {
        Ast::Identity { .. } => r == d,
        Ast::Subexpr { lhs, rhs, .. } => w matches W::Two(w1, m, w2) && evals_w(*lhs, d, m, *w1) && evals_w(*rhs, m, r, *w2),
    }
}
proof fn test_sub(node: Ast, d: Variable, m: Variable, r: Variable, w1: W, w2: W)
    requires node is Subexpr, evals_w(*node->Subexpr_lhs, d, m, w1), evals_w(*node->Subexpr_rhs, m, r, w2)
    ensures exists|w: W| evals_w(node, d, r, w)
{
    assert(evals_w(node, d, r, W::Two(Box::new(w1), m, Box::new(w2))));
}
// choose-based variant of the plain relation
pub open spec fn evals(node: Ast, d: Variable, r: Variable) -> bool
    decreases node
{
    match node {
        Ast::Identity { .. } => r == d,
        Ast::Subexpr { lhs, rhs, .. } => exists|m: Variable| evals(*lhs, d, m) && #[trigger] evals(*rhs, m, r),
    }
}
proof fn test_sub_b(node: Ast, d: Variable, m: Variable, r: Variable)
    requires node is Subexpr, evals(*node->Subexpr_lhs, d, m), evals(*node->Subexpr_rhs, m, r)
    ensures evals(node, d, r)
{ reveal_with_fuel(evals, 3); }
} // verus!
fn main() {}
