use vstd::prelude::*;
use std::rc::Rc;
verus! {
pub enum Variable { Null, Bool(bool), Array(Vec<Rcvar>) }
pub type Rcvar = Rc<Variable>;
pub enum Ast {
    Identity { offset: usize },
    Not { offset: usize, node: Box<Ast> },
    Subexpr { offset: usize, lhs: Box<Ast>, rhs: Box<Ast> },
    Projection { offset: usize, lhs: Box<Ast>, rhs: Box<Ast> },
}
#[verifier::external_body]
pub struct JmespathError { _p: u8 }
pub type SearchResult = Result<Rcvar, JmespathError>;
pub struct Context { pub offset: usize }

impl Variable {
    pub open spec fn truthy(self) -> bool {
        match self { Variable::Bool(b) => b, Variable::Array(a) => a@.len() > 0, Variable::Null => false }
    }
    pub fn is_truthy(&self) -> (r: bool) ensures r == self.truthy() {
        match self {
            Variable::Bool(b) => *b,
            Variable::Array(ref a) => !a.is_empty(),
            _ => false,
        }
    }
    pub fn as_array(&self) -> (r: Option<&Vec<Rcvar>>)
        ensures match *self { Variable::Array(a) => r == Some(&a), _ => r is None }
    { match self { Variable::Array(array) => Some(array), _ => None } }
    pub fn is_null(&self) -> (r: bool) ensures r == (*self is Null) { match self { Variable::Null => true, _ => false } }
}

// Relational big-step semantics, written from the JMESPath specification.
// ok-results only in this probe (errors elided): evals(node, d, r)
pub open spec fn val(r: &Rcvar) -> Variable { **r }
pub open spec fn derefs(s: Seq<Rcvar>) -> Seq<Variable> { s.map_values(|x: Rcvar| *x) }
pub open spec fn non_null(s: Seq<Variable>) -> Seq<Variable> { s.filter(|v: Variable| !(v is Null)) }

pub open spec fn per_elem(rhs: Ast, elems: Seq<Rcvar>, per: Seq<Variable>) -> bool
    decreases rhs, 1int
{
    per.len() == elems.len() && forall|i: int| 0 <= i < per.len() ==> evals(rhs, *elems[i], #[trigger] per[i])
}

pub open spec fn evals(node: Ast, d: Variable, r: Variable) -> bool
    decreases node, 0int
{
    match node {
        Ast::Identity { .. } => r == d,
        Ast::Not { node: n, .. } => exists|x: Variable| #[trigger] evals(*n, d, x) && r == Variable::Bool(!x.truthy()),
        Ast::Subexpr { lhs, rhs, .. } => exists|m: Variable| #[trigger] evals(*lhs, d, m) && evals(*rhs, m, r),
        Ast::Projection { lhs, rhs, .. } => exists|l: Variable| #[trigger] evals(*lhs, d, l) && match l {
            Variable::Array(elems) => (r is Array) && exists|per: Seq<Variable>| #[trigger] per_elem(*rhs, elems@, per)
                && derefs(r->Array_0@) == non_null(per),
            _ => r == Variable::Null,
        },
    }
}

proof fn lemma_filter_push(s: Seq<Variable>, v: Variable)
    ensures non_null(s.push(v)) == (if v is Null { non_null(s) } else { non_null(s).push(v) })
{
    let f = |v: Variable| !(v is Null);
    assert(s.push(v).drop_last() =~= s);
    reveal(Seq::filter);
}
#[verifier::exec_allows_no_decreases_clause]
pub fn interpret(data: &Rcvar, node: &Ast, ctx: &mut Context) -> (res: SearchResult)
    ensures res matches Ok(v) ==> evals(*node, **data, *v)
{
    match *node {
        Ast::Subexpr { ref lhs, ref rhs, .. } => {
            let left_result = interpret(data, lhs, ctx)?;
            interpret(&left_result, rhs, ctx)
        }
        Ast::Identity { .. } => Ok(data.clone()),
        Ast::Not { ref node, .. } => {
            let result = interpret(data, node, ctx)?;
            Ok(Rcvar::new(Variable::Bool(!result.is_truthy())))
        }
        Ast::Projection { ref lhs, ref rhs, .. } => match interpret(data, lhs, ctx)?.as_array() {
            None => Ok(Rcvar::new(Variable::Null)),
            Some(left) => {
                let mut collected = vec![];
                let ghost mut per: Seq<Variable> = Seq::empty();
                for element in it: left
                    invariant
                        per.len() == it.index@,
                        forall|i: int| 0 <= i < per.len() ==> evals(**rhs, *left@[i], #[trigger] per[i]),
                        derefs(collected@) == non_null(per),
                {
                    let current = interpret(element, rhs, ctx)?;
                    proof {
                        let ghost old_per = per;
                        per = per.push(val(&current));
                        lemma_filter_push(old_per, val(&current));
                    }
                    if !current.is_null() {
                        collected.push(current);
                        proof { assert(derefs(collected@) =~= non_null(per)); }
                    }
                }
                proof { assert(per_elem(**rhs, left@, per)); }
                Ok(Rcvar::new(Variable::Array(collected)))
            }
        },
    }
}
} // verus!
fn main() {}
